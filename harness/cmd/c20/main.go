// C20 harness: build labels (parse / print / re-parse, validators, Parent, Includes, Matches), the
// experimental-directory test and the sandbox opt-out whitelist of the real code against the Lean model,
// plus a direct oracle that states the property on the real code with package names read as lists of
// path components.
package main

import (
	"encoding/hex"
	"fmt"
	"os"
	"path/filepath"
	"sort"
	"strings"

	"github.com/thought-machine/please/src/core"
	"github.com/thought-machine/please/src/parse/asp"
	"github.com/thought-machine/please/src/plz"
	"verif/harness/lib"
)

// ---------------------------------------------------------------- line protocol helpers

type lab struct{ P, N, S string }

func (l lab) core() core.BuildLabel {
	return core.BuildLabel{PackageName: l.P, Name: l.N, Subrepo: l.S}
}
func fromCore(l core.BuildLabel) lab { return lab{l.PackageName, l.Name, l.Subrepo} }
func showLab(l lab) string           { return lib.Hex(l.P) + ":" + lib.Hex(l.N) + ":" + lib.Hex(l.S) }

func unhex(s string) (string, bool) {
	if s == "-" {
		return "", true
	}
	b, err := hex.DecodeString(s)
	if err != nil || len(s) == 0 || strings.ToLower(s) != s {
		return "", false
	}
	return string(b), true
}

func parseLab(s string) (lab, bool) {
	f := strings.Split(s, ":")
	if len(f) != 3 {
		return lab{}, false
	}
	p, ok1 := unhex(f[0])
	n, ok2 := unhex(f[1])
	u, ok3 := unhex(f[2])
	return lab{p, n, u}, ok1 && ok2 && ok3
}

func parseStrList(s string) ([]string, bool) {
	if s == "_" {
		return nil, true
	}
	var out []string
	for _, x := range strings.Split(s, ",") {
		v, ok := unhex(x)
		if !ok {
			return nil, false
		}
		out = append(out, v)
	}
	return out, true
}

func parseLabList(s string) ([]lab, bool) {
	if s == "_" {
		return nil, true
	}
	var out []lab
	for _, x := range strings.Split(s, ",") {
		v, ok := parseLab(x)
		if !ok {
			return nil, false
		}
		out = append(out, v)
	}
	return out, true
}

func showStrList(xs []string) string {
	if len(xs) == 0 {
		return "_"
	}
	p := make([]string, len(xs))
	for i, x := range xs {
		p[i] = lib.Hex(x)
	}
	return strings.Join(p, ",")
}

func showLabList(xs []lab) string {
	if len(xs) == 0 {
		return "_"
	}
	p := make([]string, len(xs))
	for i, x := range xs {
		p[i] = showLab(x)
	}
	return strings.Join(p, ",")
}

func bit(b bool) string {
	if b {
		return "1"
	}
	return "0"
}

// ---------------------------------------------------------------- independent specification (Go)

const metaChars = "|$*?[]{}:()&\\"

// refValidPkg / refValidTgt: the documented rules for package and target names, written independently.
func refValidPkg(s string) bool {
	if s == "" {
		return true
	}
	if strings.HasPrefix(s, "/") || strings.HasSuffix(s, "/") {
		return false
	}
	for _, c := range strings.Split(s, "/") {
		if c == "" { // empty component = "//"
			return false
		}
	}
	for i := 0; i < len(s); i++ {
		if strings.IndexByte(metaChars, s[i]) >= 0 {
			return false
		}
	}
	return true
}

func refValidTgt(s string) bool {
	if s == "" {
		return false
	}
	for i := 0; i < len(s); i++ {
		if s[i] == '/' || strings.IndexByte(metaChars, s[i]) >= 0 {
			return false
		}
	}
	if s[0] == '.' && s != "..." {
		return false
	}
	return !strings.HasSuffix(s, "._build") && !strings.HasSuffix(s, "._test")
}

// under: package q is package p or lies in a directory under p; the root is p == "".
func under(p, q string) bool {
	if p == "" {
		return true
	}
	pc, qc := strings.Split(p, "/"), strings.Split(q, "/")
	if len(pc) > len(qc) {
		return false
	}
	for i := range pc {
		if pc[i] != qc[i] {
			return false
		}
	}
	return true
}

func refParent(l lab) lab {
	i := strings.IndexByte(l.N, '#')
	if i < 0 || l.N[0] != '_' {
		return l
	}
	n := l.N[:i]
	for len(n) > 0 && n[0] == '_' {
		n = n[1:]
	}
	return lab{l.P, n, l.S}
}

// specSelects: what a pattern is documented to select (package level for ... and all).
func specIncludes(pat, that lab) bool {
	switch pat.N {
	case "...":
		return under(pat.P, that.P)
	case "all":
		return pat.P == that.P
	}
	return pat.P == that.P && pat.N == that.N
}

func specMatches(pat, other lab) bool {
	switch pat.N {
	case "...":
		return under(pat.P, other.P)
	case "all":
		return pat.P == other.P
	}
	return pat == refParent(other)
}

// rawPrefixOnly: the pattern selects `other` only because of a raw string prefix (sibling with shared prefix).
func rawPrefixOnly(p, q string) bool {
	return p != "" && strings.HasPrefix(q, p) && !under(p, q)
}

// ---------------------------------------------------------------- real code

var states = map[string]*core.BuildState{}
var sbxState *core.BuildState

func stateFor(dirs []string) *core.BuildState {
	k := showStrList(dirs)
	if s, ok := states[k]; ok {
		return s
	}
	if len(states) > 4096 {
		states = map[string]*core.BuildState{}
	}
	cfg := core.DefaultConfiguration()
	cfg.Parse.ExperimentalDir = dirs
	s := core.NewBuildState(cfg)
	states[k] = s
	return s
}

func tryParse(t, cp, sr string) (lab, bool) {
	ok := false
	var l core.BuildLabel
	res := lib.Safely(func() string {
		var err error
		l, err = core.TryParseBuildLabel(t, cp, sr)
		ok = err == nil
		return ""
	})
	if res == "panic" {
		return lab{}, false
	}
	return fromCore(l), ok
}

// ---------------------------------------------------------------- ops

type H struct{ r *lib.Run }

func (h *H) rt(op, t, cp, sr string) {
	r := h.r
	panicked := false
	var l lab
	var ok bool
	if lib.Safely(func() string { l, ok = tryParse(t, cp, sr); return "" }) == "panic" {
		panicked = true
	}
	if panicked {
		r.OracleFail("parse-panics", op, "TryParseBuildLabel panicked")
		r.Emit(op, "panic", true)
		return
	}
	ctxValid := refValidPkg(cp) && (sr == "" || (!strings.Contains(sr, ":") && !strings.Contains(sr, "//") && !strings.HasSuffix(sr, "/")))
	// Every valid explicit label string must parse, to exactly its parts (reference grammar //P:N).
	if strings.HasPrefix(t, "//") && !strings.HasPrefix(t, "///") && strings.Count(t, ":") == 1 {
		i := strings.IndexByte(t, ':')
		p, n := t[2:i], t[i+1:]
		want := refValidPkg(p) && refValidTgt(n) && n != "..."
		if want != ok || (ok && (l.P != p || l.N != n || l.S != sr)) {
			r.OracleFail("explicit-label-misparsed", op, fmt.Sprintf("want ok=%v (%q,%q) got ok=%v %+v", want, p, n, ok, l))
		}
	}
	if !ok {
		r.Emit(op, "err", false)
		return
	}
	s := l.core().String()
	l2, ok2 := tryParse(s, "", "")
	re := "err"
	if ok2 {
		if l2 == l {
			re = "same"
		} else {
			re = "diff " + showLab(l2)
		}
	}
	if ctxValid {
		if !refValidPkg(l.P) {
			r.OracleFail("parse-yields-invalid-package", op, fmt.Sprintf("%+v", l))
		}
		if re != "same" {
			class := "roundtrip-other"
			rest := ""
			if strings.HasPrefix(t, "@") {
				rest = t[1:]
			} else if strings.HasPrefix(t, "///") {
				rest = t[3:]
			}
			switch {
			case l == (lab{"", "_ORIGINAL", ""}):
				class = "roundtrip-original-target-sentinel"
			case strings.HasSuffix(l.S, "/"):
				class = "roundtrip-subrepo-trailing-slash"
			case !refValidTgt(l.N) && rest != "" && l.S == rest && l.P == "" && !strings.Contains(t, ":"):
				class = "roundtrip-subrepo-abbrev-name-unvalidated"
			case !refValidTgt(l.N) && !strings.Contains(t, ":"):
				class = "roundtrip-abbrev-name-unvalidated"
			}
			r.OracleFail(class, op, fmt.Sprintf("%q parses to %+v, which prints as %q, which re-parses to %s", t, l, s, re))
			r.Count("rt-fail:" + class)
		}
	}
	r.Count("rt-ok")
	if l.S != "" {
		r.Count("rt-ok-subrepo")
	}
	if l.N == "..." {
		r.Count("rt-ok-dots")
	}
	r.Emit(op, "ok "+showLab(l)+" | "+lib.Hex(s)+" | "+re, true)
}

func (h *H) sbx(op, fl string, l lab, wl []lab, dirs []string) {
	r := h.r
	if len(fl) != 4 || strings.Trim(fl[:3], "01") != "" || !strings.Contains("ntf", fl[3:]) {
		r.Emit(op, "bad-op", false)
		return
	}
	if sbxState == nil {
		sbxState = core.NewBuildState(core.DefaultConfiguration())
	}
	cfg := sbxState.Config // validateSandbox reads the whitelist and the experimental dirs from the config
	cfg.Parse.ExperimentalDir = dirs
	cfg.Sandbox.ExcludeableTargets = nil
	for _, w := range wl {
		cfg.Sandbox.ExcludeableTargets = append(cfg.Sandbox.ExcludeableTargets, w.core())
	}
	t := core.NewBuildTarget(l.core())
	t.IsFilegroup = fl[0] == '1'
	t.IsRemoteFile = fl[1] == '1'
	t.Sandbox = fl[2] == '1'
	if fl[3] != 'n' {
		t.Test = &core.TestFields{Sandbox: fl[3] == 't'}
	}
	out := lib.Safely(func() string {
		if err := asp.ValidateSandboxForVerif(sbxState, t); err != nil {
			return "err"
		}
		return "ok"
	})
	// direct oracle
	exempt := t.IsFilegroup || len(wl) == 0 || (!t.IsRemoteFile && t.Sandbox && (t.Test == nil || t.Test.Sandbox)) || l.P == "_please"
	spec := exempt
	// root cause of a wrong acceptance: ask the real Matches about every whitelist entry
	wlCause, expRaw := "", false
	for _, w := range wl {
		m := w.core().Matches(l.core())
		if specMatches(w, l) {
			spec = true
		} else if m && wlCause == "" {
			switch {
			case w.N == "..." && w.P == ".":
				wlCause = "matches-dot-package-matches-all"
			case w.N == "..." && rawPrefixOnly(w.P, l.P):
				wlCause = "matches-string-prefix"
			default:
				wlCause = "matches-deviates"
			}
		}
	}
	for _, d := range dirs {
		if under(d, l.P) {
			spec = true
		} else if rawPrefixOnly(d, l.P) {
			expRaw = true
		}
	}
	got := out == "ok"
	if got != spec {
		switch {
		case got && !spec && wlCause != "":
			r.OracleFail(wlCause, op, fmt.Sprintf("%v opts out of the sandbox via whitelist %v", l, wl))
		case got && !spec && expRaw:
			r.OracleFail("sandbox-experimental-string-prefix", op, fmt.Sprintf("%v opts out of the sandbox via experimental dirs %q", l, dirs))
		default:
			r.OracleFail("sandbox-other", op, fmt.Sprintf("validateSandbox=%s, documented rules say accept=%v", out, spec))
		}
	}
	r.Count("sbx-" + out)
	r.Emit(op, out, !exempt)
}

func (h *H) runOp(op string) {
	r := h.r
	f := strings.Split(op, " ")
	bad := func() { r.Emit(op, "bad-op", false) }
	switch {
	case f[0] == "rt" && len(f) == 4:
		t, ok1 := unhex(f[1])
		cp, ok2 := unhex(f[2])
		sr, ok3 := unhex(f[3])
		if !(ok1 && ok2 && ok3) {
			bad()
			return
		}
		h.rt(op, t, cp, sr)
	case f[0] == "new" && len(f) == 3:
		p, ok1 := unhex(f[1])
		n, ok2 := unhex(f[2])
		if !(ok1 && ok2) {
			bad()
			return
		}
		out := lib.Safely(func() string {
			if _, err := core.TryNewBuildLabel(p, n); err != nil {
				return "err"
			}
			return "ok"
		})
		want := refValidPkg(p) && refValidTgt(n) && !strings.HasSuffix(p, "._build") && !strings.HasSuffix(p, "._test")
		if (out == "ok") != want {
			r.OracleFail("validate-names-deviates", op, fmt.Sprintf("TryNewBuildLabel(%q,%q)=%s, documented rules say %v", p, n, out, want))
		}
		r.Count("new-" + out)
		r.Emit(op, out, out == "ok")
	case f[0] == "par" && len(f) == 2:
		l, ok := parseLab(f[1])
		if !ok {
			bad()
			return
		}
		p := fromCore(l.core().Parent())
		if p != refParent(l) {
			r.OracleFail("parent-deviates", op, fmt.Sprintf("%v vs %v", p, refParent(l)))
		}
		r.Emit(op, showLab(p), p != l)
	case (f[0] == "inc" || f[0] == "mat") && len(f) == 3:
		a, ok1 := parseLab(f[1])
		b, ok2 := parseLab(f[2])
		if !(ok1 && ok2) {
			bad()
			return
		}
		var got, spec bool
		if f[0] == "inc" {
			got, spec = a.core().Includes(b.core()), specIncludes(a, b)
			if got != spec {
				cls := "includes-deviates"
				if a.N == "..." && rawPrefixOnly(a.P, b.P) {
					cls = "includes-string-prefix"
				}
				r.OracleFail(cls, op, fmt.Sprintf("%v.Includes(%v)=%v, by components %v", a, b, got, spec))
			}
		} else {
			got, spec = a.core().Matches(b.core()), specMatches(a, b)
			if got != spec {
				cls := "matches-deviates"
				if a.N == "..." && got && a.P == "." {
					cls = "matches-dot-package-matches-all"
				} else if a.N == "..." && got && rawPrefixOnly(a.P, b.P) {
					cls = "matches-string-prefix"
				}
				r.OracleFail(cls, op, fmt.Sprintf("%v.Matches(%v)=%v, by components %v", a, b, got, spec))
			}
		}
		r.Count(f[0] + "-" + bit(got))
		r.Emit(op, bit(got), got || a.P != b.P)
	case f[0] == "exp" && len(f) == 3:
		l, ok1 := parseLab(f[1])
		dirs, ok2 := parseStrList(f[2])
		if !(ok1 && ok2) {
			bad()
			return
		}
		got := l.core().IsExperimentalForVerif(stateFor(dirs))
		spec := false
		if l.S == "" {
			for _, d := range dirs {
				if under(d, l.P) {
					spec = true
				}
			}
		}
		if got != spec {
			cls := "experimental-deviates"
			for _, d := range dirs {
				if rawPrefixOnly(d, l.P) {
					cls = "experimental-string-prefix"
				}
			}
			r.OracleFail(cls, op, fmt.Sprintf("isExperimental(%v, %q)=%v, by components %v", l, dirs, got, spec))
		}
		r.Count("exp-" + bit(got))
		r.Emit(op, bit(got), len(dirs) > 0)
	case f[0] == "sbx" && len(f) == 5:
		l, ok1 := parseLab(f[2])
		wl, ok2 := parseLabList(f[3])
		dirs, ok3 := parseStrList(f[4])
		if !(ok1 && ok2 && ok3) {
			bad()
			return
		}
		h.sbx(op, f[1], l, wl, dirs)
	case f[0] == "cl" && len(f) == 5:
		p, ok1 := unhex(f[1])
		exp, ok2 := parseStrList(f[2])
		bl, ok3 := parseStrList(f[3])
		pkgs, ok4 := parseStrList(f[4])
		if !(ok1 && ok2 && ok3 && ok4) {
			bad()
			return
		}
		h.cmdline(op, p, exp, bl, pkgs)
	case f[0] == "sel" && len(f) == 5 && (f[1] == "inc" || f[1] == "mat"):
		p, ok1 := unhex(f[2])
		n, ok2 := unhex(f[3])
		pkgs, ok3 := parseStrList(f[4])
		if !(ok1 && ok2 && ok3) {
			bad()
			return
		}
		pat := lab{p, n, ""}
		var sb strings.Builder
		sel := 0
		for _, q := range pkgs {
			var got, spec bool
			if f[1] == "inc" {
				// as in expandOriginalPseudoTarget: label.Includes(BuildLabel{PackageName: name})
				got = pat.core().Includes(core.BuildLabel{PackageName: q})
				spec = (n == "..." && under(p, q)) || (n != "..." && p == q && (n == "all" || n == ""))
			} else {
				other := lab{q, "x", ""}
				got = pat.core().Matches(other.core())
				spec = specMatches(pat, other)
			}
			if got != spec {
				cls := f[1] + "-selection-deviates"
				if f[1] == "inc" {
					cls = "includes-deviates"
				}
				if f[1] == "mat" && n == "..." && got && p == "." {
					cls = "matches-dot-package-matches-all"
				} else if n == "..." && got && rawPrefixOnly(p, q) {
					cls = map[string]string{"inc": "includes-string-prefix", "mat": "matches-string-prefix"}[f[1]]
				}
				r.OracleFail(cls, op, fmt.Sprintf("pattern //%s:%s on package %q: selected=%v, by components %v", p, n, q, got, spec))
			}
			if got {
				sel++
			}
			sb.WriteString(bit(got))
		}
		r.Count("sel-" + f[1])
		if sel > 0 && sel < len(pkgs) {
			r.Count("sel-proper-subset")
		}
		out := sb.String()
		r.Emit(op, out, sel > 0 && sel < len(pkgs))
	default:
		bad()
	}
}

// ---------------------------------------------------------------- command-line expansion of //p/...

func okComp(c string) bool { return c != "" && c != "." && c != "BUILD" && !strings.Contains(c, "/") }

func okPath(p string) bool {
	if p == "" {
		return true
	}
	for _, c := range strings.Split(p, "/") {
		if !okComp(c) {
			return false
		}
	}
	return true
}

// excludedDir: the documented exclusions of `...` expansion for the directory with root-relative path q:
// plz-out, hidden, an experimental directory (root-relative, whole path), blacklisted (by name or by a leading
// sequence of whole components).
func excludedDir(q string, exp, bl []string) bool {
	base := q
	if i := strings.LastIndexByte(q, '/'); i >= 0 {
		base = q[i+1:]
	}
	if q == "" {
		base = "."
	}
	if base == "plz-out" || (q != "" && strings.HasPrefix(base, ".")) {
		return true
	}
	name := q
	if q == "" {
		name = "."
	}
	for _, e := range exp {
		if e == name {
			return true
		}
	}
	for _, d := range bl {
		if d == base || (d != "" && under(d, q) && q != "") {
			return true
		}
	}
	return false
}

var cmdN int

// cmdline materialises the repository (one BUILD file per package) under $VERIF_SCRATCH, runs the real walk that
// expands `//p/...` from the command line and converts the BUILD files found to packages as findOriginalTask does.
func (h *H) cmdline(op, p string, exp, bl, pkgs []string) {
	r := h.r
	if !okPath(p) {
		r.Emit(op, "bad-op", false)
		return
	}
	isDir := p == ""
	for _, q := range pkgs {
		if !okPath(q) {
			r.Emit(op, "bad-op", false)
			return
		}
		if under(p, q) {
			isDir = true
		}
	}
	if !isDir { // the real walk log.Fatalf's on a missing start directory
		r.Emit(op, "bad-op", false)
		return
	}
	scratch := os.Getenv("VERIF_SCRATCH")
	if scratch == "" {
		scratch = r.OutDir
	}
	cmdN++
	dir := filepath.Join(scratch, fmt.Sprintf("cl%d", cmdN))
	for _, q := range pkgs {
		d := filepath.Join(dir, filepath.FromSlash(q))
		if err := os.MkdirAll(d, 0o755); err != nil {
			panic(err)
		}
		if err := os.WriteFile(filepath.Join(d, "BUILD"), nil, 0o644); err != nil {
			panic(err)
		}
	}
	os.MkdirAll(dir, 0o755)
	cfg := core.DefaultConfiguration()
	cfg.Parse.BuildFileName = []string{"BUILD"}
	cfg.Parse.ExperimentalDir = exp
	cfg.Parse.BlacklistDirs = bl
	home, _ := os.Getwd()
	if err := os.Chdir(dir); err != nil {
		panic(err)
	}
	var got []string
	for filename := range plz.FindAllBuildFiles(cfg, p, "") {
		// findOriginalTask (src/plz/plz.go): the label's package is the directory of the BUILD file
		dirname, _ := filepath.Split(filename)
		got = append(got, strings.TrimLeft(strings.TrimPrefix(strings.TrimRight(dirname, "/"), ""), "/"))
	}
	os.Chdir(home)
	os.RemoveAll(dir)
	sort.Strings(got)
	// direct oracle: exactly the packages the pattern Includes, minus those below an excluded directory
	var want []string
	pat := lab{p, "...", ""}
	for _, q := range pkgs {
		if !pat.core().Includes(core.BuildLabel{PackageName: q, Name: "all"}) || !under(p, q) {
			continue
		}
		ok := true
		// every directory from p down to q
		rest := strings.TrimPrefix(strings.TrimPrefix(q, p), "/")
		cur := p
		if excludedDir(cur, exp, bl) {
			ok = false
		}
		if rest != "" {
			for _, c := range strings.Split(rest, "/") {
				if cur == "" {
					cur = c
				} else {
					cur += "/" + c
				}
				if excludedDir(cur, exp, bl) {
					ok = false
				}
			}
		}
		if ok {
			want = append(want, q)
		}
	}
	sort.Strings(want)
	uniq := func(xs []string) []string {
		var out []string
		for i, x := range xs {
			if i == 0 || xs[i-1] != x {
				out = append(out, x)
			}
		}
		return out
	}
	got, want = uniq(got), uniq(want)
	if strings.Join(got, ",") != strings.Join(want, ",") {
		cls := "cmdline-expansion-deviates"
		for _, q := range want {
			missing := true
			for _, g := range got {
				if g == q {
					missing = false
				}
			}
			if missing {
				for _, e := range exp {
					eb := e[strings.LastIndexByte(e, '/')+1:]
					for _, c := range strings.Split(q, "/") {
						if c == eb && !under(e, q) {
							cls = "cmdline-experimental-basename-match"
						}
					}
				}
			}
		}
		r.OracleFail(cls, op, fmt.Sprintf("%s with experimental dirs %q, blacklist %q over packages %q selects %q, documented %q", lab{p, "...", ""}.core(), exp, bl, pkgs, got, want))
	}
	r.Count("cl")
	if len(got) > 0 && len(got) < len(pkgs) {
		r.Count("cl-proper-subset")
	}
	r.Emit(op, showStrList(got), len(got) > 0 && len(got) < len(pkgs))
}

// ---------------------------------------------------------------- generators

func allStrings(alpha string, maxLen int, f func(string)) {
	var rec func(cur []byte, n int)
	rec = func(cur []byte, n int) {
		f(string(cur))
		if n == 0 {
			return
		}
		for i := 0; i < len(alpha); i++ {
			rec(append(cur, alpha[i]), n-1)
		}
	}
	rec(nil, maxLen)
}

var comps = []string{"a", "b", "ab", "a.b", "a_", "p", "pfoo", "p.q", ".", "..", ".h", "x._build", "y._test", "all", "...", "_a#b", "experimental", "exp", "third_party", "_please"}

func genPkg(g *lib.Rng) string {
	n := g.Intn(4)
	if n == 0 && g.Chance(50) {
		return ""
	}
	var p []string
	for i := 0; i <= n; i++ {
		p = append(p, lib.Pick(g, comps[:12+g.Intn(len(comps)-11)]))
	}
	return strings.Join(p, "/")
}

// genTree: a set of package names that contains, for some members, a child, a sibling sharing the name as a
// string prefix, and the parent.
func genTree(g *lib.Rng, n int) []string {
	seen := map[string]bool{}
	var out []string
	add := func(s string) {
		if !seen[s] {
			seen[s] = true
			out = append(out, s)
		}
	}
	for len(out) < n {
		p := genPkg(g)
		add(p)
		if p != "" {
			switch g.Intn(5) {
			case 0:
				add(p + "/" + lib.Pick(g, comps[:8]))
			case 1:
				add(p + lib.Pick(g, []string{"foo", "2", "_", ".x", "-", "a"}))
			case 2:
				if i := strings.LastIndexByte(p, '/'); i > 0 {
					add(p[:i])
				}
			case 3:
				add(p[:1+g.Intn(len(p))])
			}
		}
	}
	return out
}

func genName(g *lib.Rng) string {
	return lib.Pick(g, []string{"x", "all", "...", "lib", "_x#y", "__x#y#z", "x#y", "_x", "a.b", ".h", "t._test", "_ORIGINAL", "a b", "é", "x"})
}

func genSub(g *lib.Rng) string {
	if g.Chance(70) {
		return ""
	}
	return lib.Pick(g, []string{"s", "s/t", "s@linux_amd64", "third_party/go", "s/", "/s", ".s"})
}

const fuzzAlpha = "/:.@_#ab|$*?[]{}()&\\ -=+~,;'\"%\t\x00\x7f\xc3\xa9\xff"

func genTargetString(g *lib.Rng) string {
	switch g.Intn(6) {
	case 0: // raw fuzz
		n := 1 + g.Intn(12)
		b := make([]byte, n)
		for i := range b {
			b[i] = fuzzAlpha[g.Intn(len(fuzzAlpha))]
		}
		return string(b)
	case 1: // explicit
		return "//" + genPkg(g) + ":" + genName(g)
	case 2: // abbreviated / subtree
		return "//" + genPkg(g) + lib.Pick(g, []string{"", "/...", "...", "/", "/.../..."})
	case 3: // local
		return ":" + genName(g)
	case 4: // subrepo forms
		pre := lib.Pick(g, []string{"@", "///"})
		sub := lib.Pick(g, []string{"s", "s/t", "", "s/", "/s", ".s", "s@arch", "a:b", "s//t"})
		rest := lib.Pick(g, []string{"", "//" + genPkg(g) + ":" + genName(g), "//" + genPkg(g), ":" + genName(g), "//" + genPkg(g) + "/...", "///" + genPkg(g), "//@" + genPkg(g)})
		return pre + sub + rest
	default: // mutate a valid label by one byte
		s := []byte("//" + genPkg(g) + ":" + genName(g))
		i := g.Intn(len(s))
		switch g.Intn(3) {
		case 0:
			s[i] = fuzzAlpha[g.Intn(len(fuzzAlpha))]
		case 1:
			s = append(s[:i], s[i+1:]...)
		default:
			s = append(s[:i], append([]byte{fuzzAlpha[g.Intn(len(fuzzAlpha))]}, s[i:]...)...)
		}
		return string(s)
	}
}

func main() {
	r := lib.Start()
	defer r.Finish()
	h := &H{r}
	r.Rule = "rt: the string parses; inc/mat: selected or different packages; sel: a proper non-empty subset of the tree is selected; sbx: no unconditional exemption applies; distinct by op line"
	if ops := r.ReplayOps(); ops != nil {
		for _, op := range ops {
			h.runOp(op)
		}
		return
	}
	g := r.Rng
	// 1. every string over the adversarial alphabet up to length L, empty context
	L := r.N(6, 7)
	allStrings("/:.ab@_#", L, func(s string) {
		h.runOp("rt " + lib.Hex(s) + " - -")
		r.Count("rt-exhaustive")
	})
	// 2. every string up to length 4 in non-trivial contexts (current package, subrepo argument)
	for _, ctx := range [][2]string{{"p", ""}, {"p/q", "s"}, {"", "s/t"}} {
		allStrings("/:.a@_", r.N(4, 5), func(s string) {
			h.runOp("rt " + lib.Hex(s) + " " + lib.Hex(ctx[0]) + " " + lib.Hex(ctx[1]))
			r.Count("rt-exhaustive-ctx")
		})
	}
	// 3. validators: all (package, name) pairs over a small alphabet, plus the reserved suffixes
	var small []string
	allStrings("/.a:", 3, func(s string) { small = append(small, s) })
	small = append(small, "x._build", "x._test", "._build", "a/._test", "...", "a b", "a|b", "a\\b", "é", "a/b._buildx", "x._builds")
	for _, p := range small {
		for _, n := range small {
			h.runOp("new " + lib.Hex(p) + " " + lib.Hex(n))
		}
	}
	// 4. Includes / Matches: all pairs of small package strings x pattern names
	var pk []string
	allStrings("/.a", r.N(3, 4), func(s string) { pk = append(pk, s) })
	for _, p := range pk {
		for _, q := range pk {
			for _, n := range []string{"...", "all", "x", "_x#y"} {
				for _, m := range []string{"x", "_x#y"} {
					a, b := lab{p, n, ""}, lab{q, m, ""}
					h.runOp("inc " + showLab(a) + " " + showLab(b))
					h.runOp("mat " + showLab(a) + " " + showLab(b))
				}
			}
		}
	}
	r.Exhaust = true
	// 5. Parent
	for _, n := range []string{"x", "_x#y", "__x#y", "x#y", "_x", "_#", "#", "___#_", "_x#y#z", "_é#y", "_x_#"} {
		h.runOp("par " + showLab(lab{"p", n, "s"}))
	}
	// 6. (pattern, package) over generated package trees, through Includes (command line expansion,
	//    visibility, exclude), Matches (sandbox whitelist), isExperimental and validateSandbox
	for i := 0; i < r.N(150, 1500); i++ {
		tree := genTree(g, 4+g.Intn(10))
		pats := append([]string{}, tree...)
		for _, p := range tree { // prefixes of members as patterns too
			if i := strings.LastIndexByte(p, '/'); i > 0 {
				pats = append(pats, p[:i])
			}
		}
		pats = append(pats, "", ".", genPkg(g))
		for _, p := range pats {
			for _, n := range []string{"...", "all"} {
				h.runOp("sel inc " + lib.Hex(p) + " " + lib.Hex(n) + " " + showStrList(tree))
				h.runOp("sel mat " + lib.Hex(p) + " " + lib.Hex(n) + " " + showStrList(tree))
			}
		}
		for j := 0; j < 12; j++ {
			l := lab{lib.Pick(g, tree), genName(g), genSub(g)}
			if l.N == "..." {
				l.N = "x"
			}
			nd := g.Intn(3)
			var dirs []string
			for k := 0; k < nd; k++ {
				dirs = append(dirs, lib.Pick(g, pats))
			}
			h.runOp("exp " + showLab(l) + " " + showStrList(dirs))
			var wl []lab
			for k := 0; k < g.Intn(3); k++ {
				wl = append(wl, lab{lib.Pick(g, pats), lib.Pick(g, []string{"...", "all", "x", l.N}), ""})
			}
			fl := bit(g.Chance(10)) + bit(g.Chance(30)) + bit(g.Chance(40)) + lib.Pick(g, []string{"n", "t", "f"})
			h.runOp("sbx " + fl + " " + showLab(l) + " " + showLabList(wl) + " " + showStrList(dirs))
			a := lab{lib.Pick(g, pats), lib.Pick(g, []string{"...", "all", "x", l.N, refParent(l).N}), genSub(g)}
			h.runOp("inc " + showLab(a) + " " + showLab(l))
			h.runOp("mat " + showLab(a) + " " + showLab(l))
		}
	}
	// 6b. command-line expansion of //p/... on materialised repositories: experimental dirs (root-relative) whose
	//     name re-occurs as a deeper component of a non-experimental package, blacklist entries, string-prefix siblings
	clComps := []string{"src", "experimental", "exp", "deep", "lib", "experimentalx", "third_party", "a", "ab", ".hid", "plz-out", "tools"}
	for i := 0; i < r.N(250, 2500); i++ {
		seen := map[string]bool{}
		var pkgs []string
		for len(pkgs) < 3+g.Intn(7) {
			n := 1 + g.Intn(3)
			var cs []string
			for k := 0; k < n; k++ {
				cs = append(cs, lib.Pick(g, clComps[:8+g.Intn(5)]))
			}
			q := strings.Join(cs, "/")
			if g.Chance(8) {
				q = ""
			}
			if !seen[q] {
				seen[q] = true
				pkgs = append(pkgs, q)
			}
			if g.Chance(35) && q != "" { // a deeper package with the name of a (potential) experimental dir
				d := q + "/" + lib.Pick(g, []string{"experimental", "exp", "deep/experimental"})
				if !seen[d] {
					seen[d] = true
					pkgs = append(pkgs, d)
				}
			}
		}
		var exp, bl []string
		for k := 0; k < g.Intn(3); k++ {
			exp = append(exp, lib.Pick(g, []string{"experimental", "exp", "src/experimental", "experimentalx"}))
		}
		for k := 0; k < g.Intn(3); k++ {
			bl = append(bl, lib.Pick(g, []string{"lib", "third_party", "a", "src/lib", "tools", "ab"}))
		}
		pats := []string{""}
		for _, q := range pkgs {
			if q != "" {
				pats = append(pats, q)
				if j := strings.IndexByte(q, '/'); j > 0 {
					pats = append(pats, q[:j])
				}
			}
		}
		for k := 0; k < 3; k++ {
			h.runOp("cl " + lib.Hex(lib.Pick(g, pats)) + " " + showStrList(exp) + " " + showStrList(bl) + " " + showStrList(pkgs))
		}
	}
	// 7. fuzzed label strings: longer, wider alphabet (metacharacters, NUL, non-ASCII, invalid UTF-8), contexts
	for i := 0; i < r.N(20000, 300000); i++ {
		cp, sr := "", ""
		if g.Chance(30) {
			cp = genPkg(g)
		}
		if g.Chance(15) {
			sr = lib.Pick(g, []string{"s", "s/t", "s@arch"})
		}
		if g.Chance(3) { // contexts the oracle does not cover (invalid), correspondence only
			cp, sr = lib.Pick(g, []string{"a:b", "/a", "a//b"}), lib.Pick(g, []string{"", "s/", "a:b"})
			r.Count("rt-invalid-context")
		}
		h.runOp("rt " + lib.Hex(genTargetString(g)) + " " + lib.Hex(cp) + " " + lib.Hex(sr))
		r.Count("rt-fuzz")
	}
}
