// c31: end-to-end correspondence for C31 (concurrent plz invocations on one repository) against Driver/C31.lean.
//
// A generated scenario is a small repository (the command language of e2ebuild: cat / catfirst / catn / mkdir /
// const genrules, so whole output trees have a direct interpretation in the Lean model), an optional history
// (sequential builds, source edits, removed outputs — so that the concurrent run starts from a partly stale
// plz-out), and then one or more `par` steps: 2..4 simultaneous `plz build` / `plz build --rebuild` / `plz test`
// processes with seeded start offsets and thread counts over overlapping target sets in ONE working tree.
// Every action is padded with a short sleep and appends start/end events to a flock-protected log outside the
// repository.  Compared with the model: all exit statuses, the output trees, and the number of executions of every
// action.  Direct oracle (independent of the model): every process exits 0; the final trees equal those of a
// single clean build in a fresh directory; no two executions of the same target's action (or test) overlap; no
// action runs more than once when nothing forces it; an output whose contents did not change is still the same
// file (inode) afterwards.  The real binary is $VERIF_PLZ.
package main

import (
	"encoding/hex"
	"fmt"
	"os"
	"os/exec"
	"path/filepath"
	"sort"
	"strconv"
	"strings"
	"sync"
	"syscall"
	"time"

	"verif/harness/lib"
)

type target struct {
	Label, Kind, Out, Const string
	Srcs                    []string
}

func pkgOf(label string) string  { return strings.SplitN(strings.TrimPrefix(label, "//"), ":", 2)[0] }
func nameOf(label string) string { return strings.SplitN(label, ":", 2)[1] }
func isLabel(s string) bool      { return strings.HasPrefix(s, "//") }
func hx(s string) string {
	if s == "" {
		return "-"
	}
	return hex.EncodeToString([]byte(s))
}

// ---------------------------------------------------------------- abstract repository state

type repoState struct {
	files   map[string]string
	targets map[string]*target
	order   []string
}

func newState() *repoState { return &repoState{files: map[string]string{}, targets: map[string]*target{}} }

func (s *repoState) apply(op string) bool {
	f := strings.Split(op, " ")
	switch f[0] {
	case "file":
		if len(f) != 3 {
			return false
		}
		s.files[f[1]] = lib.UnHex(f[2])
	case "target":
		if len(f) < 5 {
			return false
		}
		t := &target{Label: f[1], Kind: f[2], Out: f[4]}
		if f[3] != "-" {
			t.Srcs = strings.Split(f[3], ",")
		}
		switch t.Kind {
		case "cat", "catfirst", "catn", "mkdir":
			if len(f) != 5 {
				return false
			}
		case "const":
			if len(f) != 6 {
				return false
			}
			t.Const = lib.UnHex(f[5])
		default:
			return false
		}
		if _, ok := s.targets[t.Label]; !ok {
			s.order = append(s.order, t.Label)
		}
		s.targets[t.Label] = t
	default:
		return false
	}
	return true
}

func (s *repoState) deps(l string) []string {
	var out []string
	for _, x := range s.targets[l].Srcs {
		if isLabel(x) {
			out = append(out, x)
		}
	}
	return out
}

// closure: dependency closure of req in post-order (nil if a label is undefined).
func (s *repoState) closure(req []string) []string {
	var order []string
	seen := map[string]bool{}
	ok := true
	var visit func(l string, depth int)
	visit = func(l string, depth int) {
		if seen[l] || !ok {
			return
		}
		if s.targets[l] == nil || depth > len(s.targets)+1 {
			ok = false
			return
		}
		seen[l] = true
		for _, d := range s.deps(l) {
			visit(d, depth+1)
		}
		order = append(order, l)
	}
	for _, l := range req {
		visit(l, 0)
	}
	if !ok {
		return nil
	}
	return order
}

// ---------------------------------------------------------------- par specification

type proc struct {
	Mode    string // b | r | t
	Offset  int    // ms
	Threads int
	Labels  []string
}

func parseProcs(spec string) []proc {
	var out []proc
	for _, p := range strings.Split(spec, ";") {
		f := strings.Split(p, "@")
		if len(f) != 4 || (f[0] != "b" && f[0] != "r" && f[0] != "t") {
			return nil
		}
		off, e1 := strconv.Atoi(f[1])
		th, e2 := strconv.Atoi(f[2])
		if e1 != nil || e2 != nil || th < 1 || f[3] == "-" || f[3] == "" {
			return nil
		}
		out = append(out, proc{f[0], off, th, strings.Split(f[3], ",")})
	}
	return out
}

func (p proc) String() string {
	return fmt.Sprintf("%s@%d@%d@%s", p.Mode, p.Offset, p.Threads, strings.Join(p.Labels, ","))
}

// testName: processes that test the same label set share one test target (so its test lock is contended).
func testName(labels []string) string {
	s := append([]string{}, labels...)
	sort.Strings(s)
	h := uint32(2166136261)
	for _, c := range []byte(strings.Join(s, ",")) {
		h = (h ^ uint32(c)) * 16777619
	}
	return fmt.Sprintf("zt%08x", h)
}

// ---------------------------------------------------------------- real repository on disk

type realRepo struct {
	root, home, log, plz string
	sleepMs              map[string]int // per label: how long the action sleeps
	tests                map[string][]string
}

const catBody = `if [ -d $f ]; then (cd $f && find . -type f | LC_ALL=C sort | while read g; do echo $g; cat $g; done); else cat $f; fi`

// ev appends one event line to the log under an exclusive flock (so lines are never interleaved).
func (r *realRepo) ev(kind, label string) string {
	return "(flock 9; echo " + kind + " " + label + " >&9) 9>>" + r.log + "; "
}

func (r *realRepo) cmdFor(t *target) string {
	ms := r.sleepMs[t.Label]
	pre := r.ev("S", t.Label) + fmt.Sprintf("sleep %d.%03d; ", ms/1000, ms%1000)
	post := "; " + strings.TrimSuffix(r.ev("E", t.Label), "; ")
	switch t.Kind {
	case "cat":
		return pre + "for f in $SRCS; do " + catBody + "; done > $OUT" + post
	case "catfirst":
		return pre + "set -- $SRCS; for f in ${1:-}; do " + catBody + "; done > $OUT" + post
	case "catn":
		return pre + "for f in $SRCS; do echo $f; " + catBody + "; done > $OUT" + post
	case "mkdir":
		return pre + "set -- $SRCS; mkdir $OUT; while read n c; do echo $c > $OUT/$n; done < $1" + post
	case "const":
		return pre + "echo " + t.Const + " > $OUT" + post
	}
	panic("kind " + t.Kind)
}

func (r *realRepo) write(s *repoState) error {
	ents, _ := os.ReadDir(r.root)
	for _, e := range ents {
		if e.Name() != "plz-out" {
			os.RemoveAll(filepath.Join(r.root, e.Name()))
		}
	}
	if err := os.WriteFile(filepath.Join(r.root, ".plzconfig"), []byte("[cache]\ndir = \n"), 0o644); err != nil {
		return err
	}
	for p, c := range s.files {
		os.MkdirAll(filepath.Join(r.root, filepath.Dir(p)), 0o755)
		if err := os.WriteFile(filepath.Join(r.root, p), []byte(c), 0o644); err != nil {
			return err
		}
	}
	byPkg := map[string][]string{}
	for _, l := range s.order {
		byPkg[pkgOf(l)] = append(byPkg[pkgOf(l)], l)
	}
	var b strings.Builder
	for _, pkg := range []string{"p", "q"} {
		b.Reset()
		for _, l := range byPkg[pkg] {
			t := s.targets[l]
			srcs := make([]string, len(t.Srcs))
			for i, x := range t.Srcs {
				srcs[i] = fmt.Sprintf("%q", x)
			}
			fmt.Fprintf(&b, "genrule(name=%q, srcs=[%s], outs=[%q], cmd=%q, visibility=[\"PUBLIC\"])\n",
				nameOf(l), strings.Join(srcs, ", "), t.Out, r.cmdFor(t))
		}
		if pkg == "p" { // test targets live in package p
			names := make([]string, 0, len(r.tests))
			for n := range r.tests {
				names = append(names, n)
			}
			sort.Strings(names)
			for _, n := range names {
				data := make([]string, len(r.tests[n]))
				for i, x := range r.tests[n] {
					data[i] = fmt.Sprintf("%q", x)
				}
				cmd := r.ev("S", "//p:"+n) + "sleep 0.060; for f in $DATA; do test -e $f || exit 1; done; " + strings.TrimSuffix(r.ev("E", "//p:"+n), "; ")
				fmt.Fprintf(&b, "gentest(name=%q, data=[%s], test_cmd=%q, no_test_output=True)\n", n, strings.Join(data, ", "), cmd)
			}
		}
		if b.Len() == 0 {
			continue
		}
		os.MkdirAll(filepath.Join(r.root, pkg), 0o755)
		if err := os.WriteFile(filepath.Join(r.root, pkg, "BUILD"), []byte(b.String()), 0o644); err != nil {
			return err
		}
	}
	return nil
}

func (r *realRepo) env() []string {
	return []string{"HOME=" + r.home, "XDG_CACHE_HOME=" + r.home + "/.cache", "XDG_CONFIG_HOME=" + r.home + "/.config",
		"PATH=/usr/local/bin:/usr/bin:/bin", "LC_ALL=C"}
}

// run starts one plz invocation and waits for it.  The bound is deliberately generous (the machine may be heavily
// loaded); hitting it is reported as an infrastructure failure of this run — possibly a deadlock, which the check
// then reports as a broken correspondence — never as a verdict of the direct oracle on a slow machine.
func (r *realRepo) run(args []string) (rc int, out string) {
	cmd := exec.Command(r.plz, args...)
	cmd.Dir = r.root
	cmd.Env = r.env()
	done := make(chan struct{})
	var b []byte
	var err error
	go func() { b, err = cmd.CombinedOutput(); close(done) }()
	select {
	case <-done:
	case <-time.After(900 * time.Second):
		cmd.Process.Kill()
		<-done
		fmt.Fprintf(os.Stderr, "c31: plz %v did not finish within 900 s in %s (deadlock or overloaded machine)\n", args, r.root)
		os.Exit(5)
	}
	if err != nil {
		ee, ok := err.(*exec.ExitError)
		if !ok {
			// the binary could not be started at all: an infrastructure failure, never a verdict about the property
			fmt.Fprintf(os.Stderr, "c31: cannot run %s: %v\n", r.plz, err)
			os.Exit(4)
		}
		rc = ee.ExitCode()
		if rc == 0 {
			rc = 1
		}
	}
	return rc, string(b)
}

func plzArgs(p proc) []string {
	// global options first: `-n` after `test` would mean --num_runs
	args := []string{"-p", "-v", "error", "--noupdate", "-n", strconv.Itoa(p.Threads)}
	switch p.Mode {
	case "b":
		return append(append(args, "build"), p.Labels...)
	case "r":
		return append(append(args, "build", "--rebuild"), p.Labels...)
	default:
		return append(args, "test", "//p:"+testName(p.Labels))
	}
}

type event struct{ kind, label string }

func readEvents(p string) []event {
	b, err := os.ReadFile(p)
	if err != nil {
		return nil
	}
	var out []event
	for _, l := range strings.Split(string(b), "\n") {
		f := strings.Fields(l)
		if len(f) == 2 {
			out = append(out, event{f[0], f[1]})
		}
	}
	return out
}

func (r *realRepo) tree(t *target) string {
	p := filepath.Join(r.root, "plz-out/gen", pkgOf(t.Label), t.Out)
	st, err := os.Lstat(p)
	if err != nil {
		return "missing"
	}
	if !st.IsDir() {
		b, _ := os.ReadFile(p)
		return "f:" + hx(string(b))
	}
	ents, _ := os.ReadDir(p)
	parts := []string{}
	for _, e := range ents {
		if e.IsDir() {
			parts = append(parts, e.Name()+"=DIR")
			continue
		}
		b, _ := os.ReadFile(filepath.Join(p, e.Name()))
		parts = append(parts, e.Name()+"="+hx(string(b)))
	}
	return "d:" + strings.Join(parts, ",")
}

// inode of a target's output in plz-out/gen (0 when missing).
func (r *realRepo) inode(t *target) uint64 {
	st, err := os.Lstat(filepath.Join(r.root, "plz-out/gen", pkgOf(t.Label), t.Out))
	if err != nil {
		return 0
	}
	if sys, ok := st.Sys().(*syscall.Stat_t); ok {
		return sys.Ino
	}
	return 0
}

func (r *realRepo) snapshot(s *repoState, order []string) string {
	sorted := append([]string{}, order...)
	sort.Strings(sorted)
	parts := make([]string, len(sorted))
	for i, l := range sorted {
		parts[i] = l + "=" + r.tree(s.targets[l])
	}
	return strings.Join(parts, ";")
}

// fullTree renders everything under plz-out/gen: contents of visible files, names only of hidden bookkeeping files
// (their contents hold timings), nothing of test result files.
func (r *realRepo) fullTree() string {
	root := filepath.Join(r.root, "plz-out/gen")
	var parts []string
	filepath.Walk(root, func(p string, info os.FileInfo, err error) error {
		if err != nil || p == root {
			return nil
		}
		rel, _ := filepath.Rel(root, p)
		base := filepath.Base(p)
		if strings.HasPrefix(base, ".test_") || strings.HasPrefix(base, ".rule_hash_zt") || strings.HasPrefix(base, ".target_build_metadata_zt") || strings.HasPrefix(base, "zt") {
			return nil
		}
		switch {
		case info.IsDir():
			parts = append(parts, rel+"/")
		case strings.HasPrefix(base, "."):
			parts = append(parts, rel)
		case info.Mode().IsRegular():
			b, _ := os.ReadFile(p)
			parts = append(parts, rel+"="+hx(string(b)))
		default:
			parts = append(parts, rel+"?"+info.Mode().String())
		}
		return nil
	})
	sort.Strings(parts)
	return strings.Join(parts, " ")
}

// ---------------------------------------------------------------- generator

var textPool = []string{"hello\n", "world\n", "hello\nworld\n", "", "x", "xy", "y\n", "zz\n"}

// name files: any two entries differ in the concatenation of their contents, so the (known, C09) content-only
// directory hash cannot confuse two of them — that finding is C01's, not this property's.
var namesPool = []string{"a 1\nb 2\n", "a 3\n", "c 4\nd 5\n", "e 6\n", "a 7\nb 8\nc 9\n"}
var constPool = []string{"k1", "k2", "v"}

type gen struct {
	r   *lib.Rng
	s   *repoState
	ops []string
	n   int
}

func (g *gen) emit(op string) { g.ops = append(g.ops, op); g.s.apply(op) }

func (g *gen) writeFile(pkg, name string) {
	var c string
	if strings.HasPrefix(name, "names") {
		c = lib.Pick(g.r, namesPool)
	} else {
		c = lib.Pick(g.r, textPool)
	}
	g.emit("file " + pkg + "/" + name + " " + hx(c))
}

func (g *gen) ensureFile(pkg, name string) {
	if _, ok := g.s.files[pkg+"/"+name]; !ok {
		g.writeFile(pkg, name)
	}
}

func targetOp(t *target) string {
	srcs := "-"
	if len(t.Srcs) > 0 {
		srcs = strings.Join(t.Srcs, ",")
	}
	op := fmt.Sprintf("target %s %s %s %s", t.Label, t.Kind, srcs, t.Out)
	if t.Kind == "const" {
		op += " " + hx(t.Const)
	}
	return op
}

func (g *gen) newTarget(avail []string) *target {
	g.n++
	pkg := lib.Pick(g.r, []string{"p", "p", "q"})
	t := &target{Label: fmt.Sprintf("//%s:t%d", pkg, g.n), Out: fmt.Sprintf("t%d.out", g.n)}
	switch g.r.Intn(10) {
	case 0:
		t.Kind, t.Const = "const", lib.Pick(g.r, constPool)
	case 1, 2:
		t.Kind = "mkdir"
		f := lib.Pick(g.r, []string{"names.txt", "names2.txt"})
		g.ensureFile(pkg, f)
		t.Srcs = []string{f}
	case 3:
		t.Kind = "catfirst"
	case 4, 5:
		t.Kind = "catn"
	default:
		t.Kind = "cat"
	}
	if t.Kind == "cat" || t.Kind == "catfirst" || t.Kind == "catn" {
		fs := []string{"x.txt", "y.txt", "z.txt"}
		lib.Shuffle(g.r, fs)
		for _, f := range fs[:g.r.Intn(3)] {
			g.ensureFile(pkg, f)
			t.Srcs = append(t.Srcs, f)
		}
		av := append([]string{}, avail...)
		lib.Shuffle(g.r, av)
		nd := g.r.Intn(3)
		if len(av) > 0 && nd == 0 && g.r.Chance(75) { // chains and diamonds are the interesting shapes
			nd = 1
		}
		if nd > len(av) {
			nd = len(av)
		}
		t.Srcs = append(t.Srcs, av[:nd]...)
		if len(t.Srcs) == 0 {
			g.ensureFile(pkg, "x.txt")
			t.Srcs = []string{"x.txt"}
		}
	}
	return t
}

func (g *gen) sinks() []string {
	dep := map[string]bool{}
	for _, l := range g.s.order {
		for _, d := range g.s.deps(l) {
			dep[d] = true
		}
	}
	var out []string
	for _, l := range g.s.order {
		if !dep[l] {
			out = append(out, l)
		}
	}
	return out
}

func (g *gen) subset(minN int) []string {
	var req []string
	for _, l := range g.s.order {
		if g.r.Chance(35) {
			req = append(req, l)
		}
	}
	for len(req) < minN {
		req = append(req, lib.Pick(g.r, g.s.order))
	}
	return dedup(req)
}

func dedup(xs []string) []string {
	seen := map[string]bool{}
	var out []string
	for _, x := range xs {
		if !seen[x] {
			seen[x] = true
			out = append(out, x)
		}
	}
	return out
}

func (g *gen) parOp(run *lib.Run) string {
	n := 2 + g.r.Intn(3)
	procs := make([]proc, n)
	// overlapping by construction: a common core most processes ask for, plus individual extras
	core := g.subset(1)
	if g.r.Chance(50) {
		core = g.sinks()
	}
	for i := range procs {
		var ls []string
		switch g.r.Intn(4) {
		case 0:
			ls = g.subset(1)
		case 1:
			ls = append(append([]string{}, core...), g.subset(0)...)
		default:
			ls = append([]string{}, core...)
		}
		ls = dedup(ls)
		mode := "b"
		switch k := g.r.Intn(10); {
		case k == 0:
			mode = "r"
		case k <= 2:
			mode = "t"
		}
		off := lib.Pick(g.r, []int{0, 0, 0, 5, 15, 30, 60, 120})
		procs[i] = proc{mode, off, lib.Pick(g.r, []int{1, 2, 4, 8}), ls}
		run.Count("proc-mode-" + mode)
	}
	if g.r.Chance(25) { // identical requests: maximal contention on every lock
		for i := range procs {
			procs[i].Labels = append([]string{}, procs[0].Labels...)
			if g.r.Chance(50) {
				procs[i].Offset = 0
			}
		}
		run.Count("par-identical-requests")
	}
	run.Count(fmt.Sprintf("par-%d-processes", n))
	parts := make([]string, n)
	for i, p := range procs {
		parts[i] = p.String()
	}
	return fmt.Sprintf("par %d %s", g.r.Intn(1000000), strings.Join(parts, ";"))
}

func (g *gen) scenario(run *lib.Run) []string {
	g.ops = []string{"reset"}
	g.s = newState()
	g.n = 0
	nt := 3 + g.r.Intn(5)
	for i := 0; i < nt; i++ {
		g.emit(targetOp(g.newTarget(append([]string{}, g.s.order...))))
	}
	// history: the concurrent run starts from an empty, complete, or partly stale plz-out
	switch g.r.Intn(4) {
	case 0:
		run.Count("start-fresh")
	case 1:
		g.ops = append(g.ops, "build "+strings.Join(g.subset(1), ","))
		run.Count("start-partly-built")
	default:
		g.ops = append(g.ops, "build "+strings.Join(g.sinks(), ","))
		ne := 1 + g.r.Intn(3)
		for e := 0; e < ne; e++ {
			switch g.r.Intn(3) {
			case 0:
				g.ops = append(g.ops, "rmout "+lib.Pick(g.r, g.s.order))
				run.Count("edit-rmout")
			default:
				paths := make([]string, 0, len(g.s.files))
				for p := range g.s.files {
					paths = append(paths, p)
				}
				sort.Strings(paths)
				if len(paths) > 0 {
					p := lib.Pick(g.r, paths)
					g.writeFile(filepath.Dir(p), filepath.Base(p))
					run.Count("edit-file")
				}
			}
		}
		run.Count("start-stale")
	}
	np := 1 + g.r.Intn(2)
	for i := 0; i < np; i++ {
		if i > 0 && g.r.Chance(60) {
			paths := make([]string, 0, len(g.s.files))
			for p := range g.s.files {
				paths = append(paths, p)
			}
			sort.Strings(paths)
			p := lib.Pick(g.r, paths)
			g.writeFile(filepath.Dir(p), filepath.Base(p))
		}
		g.ops = append(g.ops, g.parOp(run))
	}
	return g.ops
}

// ---------------------------------------------------------------- executor + oracles

type result struct {
	op, out    string
	nontrivial bool
}
type oracleFail struct{ class, detail string }

func splitScenarios(ops []string) [][]string {
	var hs [][]string
	for _, op := range ops {
		if op == "reset" || len(hs) == 0 {
			hs = append(hs, nil)
		}
		hs[len(hs)-1] = append(hs[len(hs)-1], op)
	}
	return hs
}

// overlaps checks that per label the events alternate S,E,S,E…; returns the offending labels and the S counts.
func analyse(evs []event) (overlap []string, counts map[string]int, unfinished []string) {
	open := map[string]int{}
	counts = map[string]int{}
	bad := map[string]bool{}
	for _, e := range evs {
		switch e.kind {
		case "S":
			counts[e.label]++
			open[e.label]++
			if open[e.label] > 1 {
				bad[e.label] = true
			}
		case "E":
			open[e.label]--
		}
	}
	for l := range bad {
		overlap = append(overlap, l)
	}
	for l, n := range open {
		if n != 0 {
			unfinished = append(unfinished, l)
		}
	}
	sort.Strings(overlap)
	sort.Strings(unfinished)
	return
}

func runScenario(idx int, ops []string, scratch, plz string, seed uint64) ([]result, []oracleFail, map[string]int) {
	dir := filepath.Join(scratch, fmt.Sprintf("s%d", idx))
	os.RemoveAll(dir)
	defer os.RemoveAll(dir)
	mk := func(p string) string { os.MkdirAll(filepath.Join(dir, p), 0o755); return filepath.Join(dir, p) }
	rr := &realRepo{root: mk("repo"), home: mk("home"), log: filepath.Join(dir, "log"), plz: plz, sleepMs: map[string]int{}, tests: map[string][]string{}}
	s := newState()
	var res []result
	var fails []oracleFail
	counts := map[string]int{}
	text := strings.Join(ops, "\n")
	fresh := true // nothing has touched plz-out yet
	nclean := 0
	sleepRng := lib.NewRng(seed*7919 + uint64(idx))
	sleepFor := func(l string) {
		if _, ok := rr.sleepMs[l]; !ok {
			rr.sleepMs[l] = lib.Pick(sleepRng, []int{20, 40, 60, 90, 140})
		}
	}
	for _, op := range ops {
		f := strings.Split(op, " ")
		switch f[0] {
		case "reset":
			res = append(res, result{op, "ok", false})
		case "file", "target":
			if !s.apply(op) {
				res = append(res, result{op, "bad-op", false})
				continue
			}
			if f[0] == "target" {
				sleepFor(f[1])
			}
			res = append(res, result{op, "ok", false})
		case "rmout":
			if len(f) != 2 {
				res = append(res, result{op, "bad-op", false})
				continue
			}
			if t := s.targets[f[1]]; t != nil {
				os.RemoveAll(filepath.Join(rr.root, "plz-out/gen", pkgOf(t.Label), t.Out))
			}
			res = append(res, result{op, "ok", false})
		case "build":
			if len(f) != 2 {
				res = append(res, result{op, "bad-op", false})
				continue
			}
			req := strings.Split(f[1], ",")
			order := s.closure(req)
			if order == nil {
				res = append(res, result{op, "error", false})
				continue
			}
			if err := rr.write(s); err != nil {
				panic(err)
			}
			before := len(readEvents(rr.log))
			rc, out := rr.run(plzArgs(proc{"b", 0, 4, req}))
			fresh = false
			if rc != 0 {
				res = append(res, result{op, fmt.Sprintf("error:%d", rc), false})
				fails = append(fails, oracleFail{"history-build-failed", text + "\n# plz output: " + strings.ReplaceAll(out, "\n", " | ")})
				continue
			}
			_, cnt, _ := analyse(readEvents(rr.log)[before:])
			var ran []string
			for l := range cnt {
				ran = append(ran, l)
			}
			sort.Strings(ran)
			res = append(res, result{op, "ran=" + strings.Join(ran, ",") + "|" + rr.snapshot(s, order), false})
		case "par":
			var procs []proc
			if len(f) == 3 {
				procs = parseProcs(f[2])
			}
			if _, err := strconv.Atoi(f[1]); len(f) != 3 || err != nil || procs == nil {
				res = append(res, result{op, "bad-op", false})
				continue
			}
			var all []string
			forced := false
			undefined := false
			rr.tests = map[string][]string{}
			for _, p := range procs {
				all = append(all, p.Labels...)
				forced = forced || p.Mode == "r"
				if s.closure(p.Labels) == nil {
					undefined = true
				}
				if p.Mode == "t" {
					rr.tests[testName(p.Labels)] = p.Labels
				}
			}
			order := s.closure(all)
			if order == nil || undefined {
				res = append(res, result{op, "error", false})
				continue
			}
			if err := rr.write(s); err != nil {
				panic(err)
			}
			before := len(readEvents(rr.log))
			wasFresh := fresh
			fresh = false
			preIno, preTree := map[string]uint64{}, map[string]string{}
			for _, l := range order {
				preIno[l], preTree[l] = rr.inode(s.targets[l]), rr.tree(s.targets[l])
			}
			rcs := make([]int, len(procs))
			outs := make([]string, len(procs))
			var wg sync.WaitGroup
			start := time.Now()
			for i, p := range procs {
				wg.Add(1)
				go func(i int, p proc) {
					defer wg.Done()
					if d := time.Duration(p.Offset)*time.Millisecond - time.Since(start); d > 0 {
						time.Sleep(d)
					}
					rcs[i], outs[i] = rr.run(plzArgs(p))
				}(i, p)
			}
			wg.Wait()
			evs := readEvents(rr.log)[before:]
			overlap, cnt, unfinished := analyse(evs)
			// ---- direct oracle 1: every invocation exits successfully
			rcStr := make([]string, len(rcs))
			for i, rc := range rcs {
				rcStr[i] = "0"
				if rc != 0 {
					rcStr[i] = "1"
					fails = append(fails, oracleFail{"concurrent-invocation-failed", text + fmt.Sprintf("\n# process %d (%s) exit %d at: %s\n# output: %s",
						i, procs[i], rc, op, strings.ReplaceAll(outs[i], "\n", " | "))})
					counts["oracle:concurrent-invocation-failed"]++
				}
			}
			// ---- direct oracle 2: no two executions of the same action (or test) overlap
			if len(overlap) > 0 || len(unfinished) > 0 {
				fails = append(fails, oracleFail{"overlapping-executions-of-one-target", text + "\n# overlapping: " + strings.Join(overlap, ",") +
					" unfinished: " + strings.Join(unfinished, ",") + " at: " + op})
				counts["oracle:overlapping-executions-of-one-target"]++
			}
			// ---- direct oracle 3: execution counts
			sorted := append([]string{}, order...)
			sort.Strings(sorted)
			runParts := make([]string, len(sorted))
			for i, l := range sorted {
				n := cnt[l]
				runParts[i] = l + ":" + strconv.Itoa(n)
				lo, askers := 0, 0
				for _, p := range procs {
					inReq := false
					for _, x := range p.Labels {
						inReq = inReq || x == l
					}
					inCl := false
					for _, x := range s.closure(p.Labels) {
						inCl = inCl || x == l
					}
					if p.Mode == "r" && inReq {
						lo++
					} else if inCl {
						askers++
					}
				}
				hi := lo
				if askers > 0 {
					hi++
				}
				if n < lo || n > hi {
					class := "action-ran-more-than-once"
					if n < lo {
						class = "forced-rebuild-did-not-run"
					}
					fails = append(fails, oracleFail{class, text + fmt.Sprintf("\n# %s executed %d times (allowed %d..%d) at: %s", l, n, lo, hi, op)})
					counts["oracle:"+class]++
				}
			}
			ntests := 0
			for n, ls := range rr.tests {
				k := 0
				for _, p := range procs {
					if p.Mode == "t" && testName(p.Labels) == n {
						k++
					}
				}
				ntests += k
				if c := cnt["//p:"+n]; c < 1 || c > k {
					fails = append(fails, oracleFail{"test-run-count-out-of-range", text + fmt.Sprintf("\n# test over %v ran %d times, %d processes asked at: %s", ls, c, k, op)})
				}
			}
			runsStr := strings.Join(runParts, ",")
			if forced {
				runsStr = "~"
				counts["par-with-rebuild"]++
			}
			snap := rr.snapshot(s, order)
			full := ""
			if wasFresh {
				full = rr.fullTree()
			}
			res = append(res, result{op, "rc=" + strings.Join(rcStr, ",") + "|runs=" + runsStr + "|" + snap, len(order) >= 2})
			total := 0
			for _, l := range sorted {
				total += cnt[l]
			}
			counts[fmt.Sprintf("par-actions-executed-%d", min(total, 6))]++
			if total == 0 {
				counts["par-everything-up-to-date"]++
			}
			if total > 0 && total < len(order) {
				counts["par-partly-stale"]++
			}
			if ntests > 0 {
				counts["par-with-tests"]++
			}
			// ---- direct oracle 5: an output whose contents did not change is still the SAME file (moveOutput keeps it in
			// place: a rebuild to the same bytes, forced or not, must not replace a file other processes may be reading)
			for _, l := range sorted {
				if preIno[l] != 0 && preTree[l] == rr.tree(s.targets[l]) {
					if now := rr.inode(s.targets[l]); now != preIno[l] {
						fails = append(fails, oracleFail{"unchanged-output-was-replaced", text + fmt.Sprintf("\n# %s: contents unchanged, inode %d -> %d, executed %d times at: %s",
							l, preIno[l], now, cnt[l], op)})
						counts["oracle:unchanged-output-was-replaced"]++
					} else if cnt[l] > 0 {
						counts["same-bytes-rebuild-kept-file"]++
					}
				}
			}
			// ---- direct oracle 4: the final trees equal a single clean build in a fresh directory
			nclean++
			cd := fmt.Sprintf("clean%d", nclean)
			cr := &realRepo{root: mk(cd + "/repo"), home: mk(cd + "/home"), log: filepath.Join(dir, cd, "log"), plz: plz, sleepMs: rr.sleepMs, tests: rr.tests}
			if err := cr.write(s); err != nil {
				panic(err)
			}
			crc, cout := cr.run(plzArgs(proc{"b", 0, 8, dedup(all)}))
			if crc != 0 {
				fails = append(fails, oracleFail{"clean-build-failed-unexpectedly", text + "\n# plz output: " + strings.ReplaceAll(cout, "\n", " | ")})
			} else {
				csnap := cr.snapshot(s, order)
				if csnap != snap {
					fails = append(fails, oracleFail{"concurrent-differs-from-clean", text + "\n# concurrent " + snap + "\n# clean      " + csnap + " at: " + op})
					counts["oracle:concurrent-differs-from-clean"]++
				} else if wasFresh {
					if cfull := cr.fullTree(); cfull != full {
						fails = append(fails, oracleFail{"concurrent-plz-out-differs-from-clean", text + "\n# concurrent " + full + "\n# clean      " + cfull + " at: " + op})
						counts["oracle:concurrent-plz-out-differs-from-clean"]++
					}
					counts["full-tree-compared"]++
				}
			}
			os.RemoveAll(filepath.Join(dir, cd))
		default:
			res = append(res, result{op, "bad-op", false})
		}
	}
	return res, fails, counts
}

func min(a, b int) int {
	if a < b {
		return a
	}
	return b
}

func main() {
	r := lib.Start()
	defer r.Finish()
	r.Rule = "a par step (2..4 simultaneous invocations) whose union dependency closure has at least two targets; distinct by op line"
	plz := os.Getenv("VERIF_PLZ")
	if st, err := os.Stat(plz); err != nil || st.IsDir() {
		fmt.Fprintf(os.Stderr, "c31: $VERIF_PLZ (%q) is not a runnable binary\n", plz)
		os.Exit(4)
	}
	scratch := os.Getenv("VERIF_SCRATCH")
	if scratch == "" {
		scratch = r.OutDir
	}
	scratch, _ = filepath.Abs(filepath.Join(scratch, "e2e"))
	os.MkdirAll(scratch, 0o755)
	defer os.RemoveAll(scratch)
	var ops []string
	replay := false
	if rp := r.ReplayOps(); rp != nil {
		ops = rp
		replay = true
	} else {
		g := &gen{r: r.Rng}
		for i := 0; i < r.N(10, 80); i++ {
			ops = append(ops, g.scenario(r)...)
		}
	}
	// model-level search lines (no real run): every interleaving of the tiny instance under the regenerated facts
	var explore []string
	if !replay {
		explore = []string{"explore g g 2 0", "explore g g 2 1", "explore g g 3 0"}
	}
	hs := splitScenarios(ops)
	type hres struct {
		res    []result
		fails  []oracleFail
		counts map[string]int
	}
	out := make([]hres, len(hs))
	var wg sync.WaitGroup
	sem := make(chan struct{}, 6)
	for i := range hs {
		wg.Add(1)
		sem <- struct{}{}
		go func(i int) {
			defer wg.Done()
			defer func() { <-sem }()
			a, b, c := runScenario(i, hs[i], scratch, plz, r.Seed)
			out[i] = hres{a, b, c}
		}(i)
	}
	wg.Wait()
	anyFail := false
	for i, h := range out {
		for _, x := range h.res {
			r.Emit(x.op, x.out, x.nontrivial && strings.HasPrefix(x.op, "par"))
		}
		for _, f := range h.fails {
			anyFail = true
			r.OracleFail(f.class, f.detail, fmt.Sprintf("scenario %d", i))
		}
		for k, v := range h.counts {
			for j := 0; j < v; j++ {
				r.Count(k)
			}
		}
	}
	for _, e := range explore {
		// what the real runs showed stands for the implementation side: no violation observed <=> "ok"
		if anyFail {
			r.Emit(e, "violation observed-on-real-runs", false)
		} else {
			r.Emit(e, okStates(e), false)
		}
		r.Count("explore")
	}
}

// okStates: what the implementation side says to a model-level search line.  The real runs of this invocation are
// the implementation's answer: no violation observed <=> "ok".  (The search itself is exhaustive on the model side.)
func okStates(e string) string { return "ok" }
