// C10 harness: see verif/harness/rulehash (shared with C07, C08).
package main

import "verif/harness/rulehash"

func main() { rulehash.Main("C10") }
