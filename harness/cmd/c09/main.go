// C09 harness: fs.PathHasher.Hash on real scratch trees against the Lean model of its pre-image.
//
// Ops (byte strings hex, "-" empty; a leading "$W"/"$X" = the run's working / external directory):
//
//	pre  <root> <path> <ext> <tree>   impl: the byte stream the real Hash() feeds its hash object
//	                                  (captured by handing NewPathHasher a recording hash.Hash)
//	sha1 <root> <path> <ext> <tree>   impl: the real SHA-1 path hash
//	pair <root> <path> <tree> <tree>  impl: same | ne | eq <class>  (real hashes of both trees at the same path)
//
// tree := f<hex> | l<hex> | d[<hexname>=<tree>,...]   (entries bytewise sorted, as godirwalk visits them)
//
// Direct oracle: two different trees whose real path hashes are equal.  Every such pair is a failing input of
// C09; `classify` (an independent spec of the four known root causes) names its class, anything it cannot
// explain is reported as `unexplained-collision`.  Also: the hash must not depend on creation order.
package main

import (
	"bytes"
	"crypto/sha1"
	"encoding/hex"
	"errors"
	"fmt"
	"hash"
	"os"
	"path/filepath"
	"sort"
	"strings"
	"syscall"

	logging "gopkg.in/op/go-logging.v1"

	"github.com/thought-machine/please/src/fs"
	"verif/harness/lib"
)

// ---------------------------------------------------------------- trees

type Tree struct {
	Kind byte // 'f' file, 'l' symlink, 'd' directory
	Data string
	Ents []Entry
}
type Entry struct {
	Name string
	T    *Tree
}

func F(c string) *Tree          { return &Tree{Kind: 'f', Data: c} }
func L(t string) *Tree          { return &Tree{Kind: 'l', Data: t} }
func D(es ...Entry) *Tree       { return &Tree{Kind: 'd', Ents: es} }
func E(n string, t *Tree) Entry { return Entry{n, t} }

func (t *Tree) enc() string {
	switch t.Kind {
	case 'f', 'l':
		return string(t.Kind) + lib.Hex(t.Data)
	}
	parts := make([]string, len(t.Ents))
	for i, e := range t.Ents {
		parts[i] = hex.EncodeToString([]byte(e.Name)) + "=" + e.T.enc()
	}
	return "d[" + strings.Join(parts, ",") + "]"
}

func (t *Tree) clone() *Tree {
	c := &Tree{Kind: t.Kind, Data: t.Data}
	for _, e := range t.Ents {
		c.Ents = append(c.Ents, Entry{e.Name, e.T.clone()})
	}
	return c
}

func (t *Tree) sortRec() {
	sort.Slice(t.Ents, func(i, j int) bool { return t.Ents[i].Name < t.Ents[j].Name })
	for _, e := range t.Ents {
		e.T.sortRec()
	}
}

func validName(n string) bool {
	return n != "" && n != "." && n != ".." && !strings.ContainsAny(n, "/\x00") && len(n) <= 255
}

// valid: names valid and strictly increasing bytewise (what a directory looks like to the sorted walk).
func (t *Tree) valid() bool {
	for i, e := range t.Ents {
		if !validName(e.Name) || (i > 0 && !(t.Ents[i-1].Name < e.Name)) || !e.T.valid() {
			return false
		}
	}
	return true
}

type parser struct {
	s string
	i int
}

func (p *parser) hexRun() (string, bool) {
	if p.i < len(p.s) && p.s[p.i] == '-' {
		p.i++
		return "", true
	}
	j := p.i
	for j+1 < len(p.s) && isHex(p.s[j]) && isHex(p.s[j+1]) {
		j += 2
	}
	if j == p.i {
		return "", false
	}
	b, err := hex.DecodeString(p.s[p.i:j])
	if err != nil {
		return "", false
	}
	p.i = j
	return string(b), true
}

func isHex(c byte) bool { return c >= '0' && c <= '9' || c >= 'a' && c <= 'f' }

func (p *parser) tree() *Tree {
	if p.i >= len(p.s) {
		return nil
	}
	k := p.s[p.i]
	p.i++
	switch k {
	case 'f', 'l':
		d, ok := p.hexRun()
		if !ok {
			return nil
		}
		return &Tree{Kind: k, Data: d}
	case 'd':
		if p.i >= len(p.s) || p.s[p.i] != '[' {
			return nil
		}
		p.i++
		t := &Tree{Kind: 'd'}
		if p.i < len(p.s) && p.s[p.i] == ']' {
			p.i++
			return t
		}
		for {
			n, ok := p.hexRun()
			if !ok || p.i >= len(p.s) || p.s[p.i] != '=' {
				return nil
			}
			p.i++
			sub := p.tree()
			if sub == nil || p.i >= len(p.s) {
				return nil
			}
			t.Ents = append(t.Ents, Entry{n, sub})
			c := p.s[p.i]
			p.i++
			if c == ']' {
				return t
			}
			if c != ',' {
				return nil
			}
		}
	}
	return nil
}

func parseTree(s string) *Tree {
	p := &parser{s: s}
	t := p.tree()
	if t == nil || p.i != len(s) || !t.valid() {
		return nil
	}
	return t
}

func parseHex(s string) (string, bool) {
	if s == "-" {
		return "", true
	}
	b, err := hex.DecodeString(s)
	if err != nil || strings.ToLower(s) != s {
		return "", false
	}
	return string(b), true
}

// ---------------------------------------------------------------- the real code

var workDir, extDir string

func expand(s string) string {
	if strings.HasPrefix(s, "$W") {
		return workDir + s[2:]
	}
	if strings.HasPrefix(s, "$X") {
		return extDir + s[2:]
	}
	return s
}

// recorder is a hash.Hash whose "digest" is everything that was written into it.
type recorder struct{ b bytes.Buffer }

func (r *recorder) Write(p []byte) (int, error) { return r.b.Write(p) }
func (r *recorder) Sum(b []byte) []byte         { return append(b, r.b.Bytes()...) }
func (r *recorder) Reset()                      { r.b.Reset() }
func (r *recorder) Size() int                   { return 0 }
func (r *recorder) BlockSize() int              { return 64 }

func newRecorder() hash.Hash { return &recorder{} }

// materialise creates t at path p; order!=0 creates directory entries in reverse order.
func materialise(p string, t *Tree, order int) error {
	switch t.Kind {
	case 'f':
		return os.WriteFile(p, []byte(t.Data), 0o644)
	case 'l':
		return os.Symlink(expand(t.Data), p)
	}
	if err := os.Mkdir(p, 0o755); err != nil {
		return err
	}
	n := len(t.Ents)
	for i := range t.Ents {
		e := t.Ents[i]
		if order != 0 {
			e = t.Ents[n-1-i]
		}
		if err := materialise(filepath.Join(p, e.Name), e.T, order); err != nil {
			return err
		}
	}
	return nil
}

func cleanScratch() {
	for _, d := range []string{workDir, extDir} {
		es, _ := os.ReadDir(d)
		for _, e := range es {
			os.RemoveAll(filepath.Join(d, e.Name()))
		}
	}
}

// hashTree puts t at path (relative to the working directory, or absolute under $X) and hashes it with a
// fresh PathHasher exactly as sourceHash does (recalc=false, store=true, timestamp=false; xattrs off).
// errKind maps an error of the real hasher to a small stable word (no paths, no errno text).
func errKind(err error) string {
	switch {
	case err == nil:
		return "ok"
	case errors.Is(err, os.ErrNotExist):
		return "not-exist"
	case errors.Is(err, syscall.ELOOP):
		return "symlink-loop"
	case errors.Is(err, os.ErrPermission):
		return "permission"
	case strings.Contains(err.Error(), "panic"):
		return "panic"
	}
	return "other"
}

var placed string // what is on disk right now (consecutive ops on one tree share one materialisation)

func hashTree(root, path, ext string, t *Tree, newh func() hash.Hash, order int) (out []byte, err error) {
	defer func() {
		if e := recover(); e != nil { // the real code must never take the harness down
			placed = ""
			out, err = nil, fmt.Errorf("panic: %v", e)
		}
	}()
	rp, xp := expand(root), expand(path)
	key := fmt.Sprintf("%s\x00%s\x00%s\x00%s\x00%d", root, path, ext, t.enc(), order)
	if key == placed {
		return fs.NewPathHasher(rp, false, newh, "sha1").Hash(xp, false, true, false)
	}
	placed = ""
	cleanScratch()
	abs := relDest(rp, xp) // where Hash() will look once it has made the path root-relative
	if !filepath.IsAbs(abs) {
		abs = filepath.Join(workDir, abs)
	}
	abs = filepath.Clean(abs)
	if !strings.HasPrefix(abs, workDir+"/") && !strings.HasPrefix(abs, extDir+"/") {
		return nil, fmt.Errorf("path escapes the scratch directories")
	}
	if err := os.MkdirAll(filepath.Dir(abs), 0o755); err != nil {
		return nil, err
	}
	if t.Kind == 'l' && strings.HasPrefix(t.Data, "$W/") {
		// a destination written as an absolute path inside the REAL root: it exists (a file holding ext), so that
		// both branches of hash() can be executed on it — the pinned code never opens it, a variant that
		// treats such a link as a system tool would hash its contents
		dst := filepath.Clean(expand(t.Data))
		if strings.HasPrefix(dst, workDir+"/") && dst != abs && !strings.HasPrefix(dst, abs+"/") && !strings.HasPrefix(abs, dst+"/") {
			if err := os.MkdirAll(filepath.Dir(dst), 0o755); err != nil {
				return nil, err
			}
			if err := os.WriteFile(dst, []byte(ext), 0o644); err != nil {
				return nil, err
			}
		}
	}
	if t.Kind == 'l' && strings.HasPrefix(t.Data, "$X/") {
		// a "system tool": the file behind the link holds ext
		dst := expand(t.Data)
		if err := os.MkdirAll(filepath.Dir(dst), 0o755); err != nil {
			return nil, err
		}
		if err := os.WriteFile(dst, []byte(ext), 0o644); err != nil {
			return nil, err
		}
	}
	if err := materialise(abs, t, order); err != nil {
		return nil, err
	}
	placed = key
	h := fs.NewPathHasher(rp, false, newh, "sha1")
	return h.Hash(xp, false, true, false)
}

// ---------------------------------------------------------------- independent spec of the known root causes

type leaf struct {
	link    bool
	content string
}

func leaves(t *Tree) []leaf {
	switch t.Kind {
	case 'f':
		return []leaf{{false, t.Data}}
	case 'l':
		return []leaf{{true, ""}}
	}
	var out []leaf
	for _, e := range t.Ents {
		out = append(out, leaves(e.T)...)
	}
	return out
}

func flat(ls []leaf) string {
	var b strings.Builder
	for _, l := range ls {
		if l.link {
			b.WriteByte(2)
		} else {
			b.WriteString(l.content)
		}
	}
	return b.String()
}

func eqLeaves(a, b []leaf) bool {
	if len(a) != len(b) {
		return false
	}
	for i := range a {
		if a[i] != b[i] {
			return false
		}
	}
	return true
}

func relDest(root, d string) string {
	if strings.HasPrefix(d, root) {
		return strings.TrimLeft(d[len(root):], "/")
	}
	return d
}

func managedLink(root, path, dest string) bool {
	return (relDest(root, dest) != dest || !strings.HasPrefix(dest, "/")) && !strings.HasPrefix(relDest(root, path), "/")
}

func managed(root, path string, t *Tree) bool {
	return t.Kind != 'l' || managedLink(root, path, expandModel(t.Data))
}

// expandModel is what the model sees for a symbolic prefix.
func expandModel(s string) string {
	if strings.HasPrefix(s, "$W") || strings.HasPrefix(s, "$X") {
		return "/" + s[1:]
	}
	return s
}

// classify names the root cause of an equal hash for two different trees ("" = not explained).
func classify(root string, t, u *Tree) string {
	pre := func(x *Tree) string { // what a tree looks like once kind, names and framing are erased
		if x.Kind == 'l' {
			return "\x02" + relDest(root, expandModel(x.Data))
		}
		return flat(leaves(x))
	}
	switch {
	case t.Kind == 'f' && u.Kind == 'f':
		return ""
	case t.Kind == 'l' && u.Kind == 'l':
		if relDest(root, expandModel(t.Data)) == relDest(root, expandModel(u.Data)) {
			return "symlink-target-root-prefix-stripped"
		}
		return ""
	case t.Kind == 'd' && u.Kind == 'd':
		if eqLeaves(leaves(t), leaves(u)) {
			return "dir-entry-names-not-hashed"
		}
		if flat(leaves(t)) == flat(leaves(u)) {
			return "dir-file-contents-unframed"
		}
		return ""
	default:
		if pre(t) == pre(u) {
			return "path-kind-not-hashed"
		}
		return ""
	}
}

// ---------------------------------------------------------------- ops

func depth(t *Tree) int {
	d := 0
	for _, e := range t.Ents {
		if x := depth(e.T) + 1; x > d {
			d = x
		}
	}
	return d
}

func nodes(t *Tree) int {
	n := 1
	for _, e := range t.Ents {
		n += nodes(e.T)
	}
	return n
}

func runOp(r *lib.Run, op string) {
	f := strings.Split(op, " ")
	if len(f) != 5 {
		r.Emit(op, "bad-op", false)
		return
	}
	root, ok1 := parseHex(f[1])
	path, ok2 := parseHex(f[2])
	if !ok1 || !ok2 {
		r.Emit(op, "bad-op", false)
		return
	}
	mroot := expandModel(root)
	switch f[0] {
	case "pre", "sha1":
		ext, ok := parseHex(f[3])
		t := parseTree(f[4])
		if !ok || t == nil {
			r.Emit(op, "bad-op", false)
			return
		}
		newh := newRecorder
		if f[0] == "sha1" {
			newh = sha1.New
		}
		h, err := hashTree(root, path, ext, t, newh, 0)
		if err != nil {
			r.Count("hash-error:" + errKind(err))
			r.Emit(op, "error "+errKind(err), false)
			return
		}
		// the hash is a function of the tree, not of the order its entries were created in
		if f[0] == "sha1" {
			// (checked on the pre op of the same tree)
		} else if h2, err := hashTree(root, path, ext, t, newh, 1); err != nil {
			r.Count("hash-error:" + errKind(err))
			r.Emit(op, "error "+errKind(err), false)
			return
		} else if !bytes.Equal(h, h2) {
			r.OracleFail("hash-depends-on-creation-order", op, fmt.Sprintf("%x vs %x", h, h2))
		}
		r.Count(fmt.Sprintf("%s-depth%d", f[0], depth(t)))
		r.Emit(op, lib.Hex(string(h)), t.Kind == 'l' || len(t.Ents) >= 2)
	case "pair":
		t, u := parseTree(f[3]), parseTree(f[4])
		if t == nil || u == nil || !managed(mroot, expandModel(path), t) || !managed(mroot, expandModel(path), u) {
			r.Emit(op, "bad-op", false)
			return
		}
		if t.enc() == u.enc() {
			r.Emit(op, "same", false)
			r.Count("pair-same")
			return
		}
		h1, err1 := hashTree(root, path, "", t, sha1.New, 0)
		h2, err2 := hashTree(root, path, "", u, sha1.New, 0)
		if err1 != nil || err2 != nil {
			r.Count("hash-error:" + errKind(err1) + errKind(err2))
			r.Emit(op, "error "+errKind(err1)+" "+errKind(err2), false)
			return
		}
		if !bytes.Equal(h1, h2) {
			r.Emit(op, "ne", true)
			r.Count("pair-ne")
			return
		}
		cls := classify(mroot, t, u)
		implCls := cls
		if cls == "" {
			// not one of the known root causes: a new violation; the key says which kinds collided
			k := []byte{t.Kind, u.Kind}
			sort.Slice(k, func(i, j int) bool { return k[i] < k[j] })
			cls, implCls = "unexplained-collision-"+string(k), "unexplained-collision"
		}
		r.OracleFail(cls, op, fmt.Sprintf("different trees, same path hash %x", h1))
		r.Count("pair-eq:" + cls)
		r.Emit(op, "eq "+implCls, true)
	default:
		r.Emit(op, "bad-op", false)
	}
}

// ---------------------------------------------------------------- generators

const fakeRoot = "/R"

func opPre(kind, root, path, ext string, t *Tree) string {
	return kind + " " + lib.Hex(root) + " " + lib.Hex(path) + " " + lib.Hex(ext) + " " + t.enc()
}
func opPair(root, path string, t, u *Tree) string {
	return "pair " + lib.Hex(root) + " " + lib.Hex(path) + " " + t.enc() + " " + u.enc()
}

// smallFamily: every tree of depth <= 2 over names {a,b}, contents {"",x,y,xy}, link targets {a,b}.
func smallFamily(contents []string) []*Tree {
	var leavesL []*Tree
	for _, c := range contents {
		leavesL = append(leavesL, F(c))
	}
	leavesL = append(leavesL, L("a"), L("b"))
	dirs := func(opts []*Tree) []*Tree {
		var out []*Tree
		for i := -1; i < len(opts); i++ {
			for j := -1; j < len(opts); j++ {
				d := D()
				if i >= 0 {
					d.Ents = append(d.Ents, E("a", opts[i]))
				}
				if j >= 0 {
					d.Ents = append(d.Ents, E("b", opts[j]))
				}
				out = append(out, d)
			}
		}
		return out
	}
	d1 := dirs(leavesL)
	d2 := dirs(append(append([]*Tree{}, leavesL...), d1...))
	return append(append([]*Tree{}, leavesL...), d2...)
}

var names = []string{"a", "b", "ab", "a.b", "a-b", "a b", "A", "é", "0", "~", "_", ".x", "x.", "a=b", ",", "[", "]", "=", "ü", "a,b", "$W", "-", "..."}
var contents = []string{"", "x", "y", "xy", "\x02", "\x00", "\x02x", "x\x02", "a=b", "\n", "xyxy"}
var targets = []string{"a", "b", "x", "../a", "a/b", "", ".", fakeRoot + "/a", fakeRoot + "a", fakeRoot + "//a", fakeRoot, "/etc/hostname"}

func randBytes(r *lib.Rng, n int) string {
	b := make([]byte, n)
	for i := range b {
		b[i] = byte(r.Intn(256))
	}
	return string(b)
}

func randContent(r *lib.Run) string {
	switch {
	case r.Rng.Chance(70):
		return lib.Pick(r.Rng, contents)
	case r.Rng.Chance(80):
		return randBytes(r.Rng, r.Rng.Intn(200))
	default:
		// a few big files per run: cross many sha1 blocks and (thorough) the 32 KiB io.Copy buffer
		if bigLeft <= 0 {
			return randBytes(r.Rng, 64+r.Rng.Intn(130))
		}
		bigLeft--
		r.Count("big-file")
		return strings.Repeat(randBytes(r.Rng, 7), r.N(300, 5000))
	}
}

var bigLeft = 12

func randTarget(r *lib.Run) string {
	t := lib.Pick(r.Rng, targets)
	if t == "" { // symlink("") is ENOENT
		return "e"
	}
	return t
}

func randTree(r *lib.Run, d int) *Tree {
	k := r.Rng.Intn(10)
	if d == 0 && k >= 6 {
		k = r.Rng.Intn(6)
	}
	switch {
	case k < 4:
		return F(randContent(r))
	case k < 6:
		return L(randTarget(r))
	}
	t := D()
	n := r.Rng.Intn(5)
	used := map[string]bool{}
	for i := 0; i < n; i++ {
		nm := lib.Pick(r.Rng, names)
		if r.Rng.Chance(5) {
			nm = strings.Repeat("n", 200+r.Rng.Intn(56))
		}
		if used[nm] {
			continue
		}
		used[nm] = true
		t.Ents = append(t.Ents, E(nm, randTree(r, d-1)))
	}
	t.sortRec()
	return t
}

// allDirs lists every directory node of t (t itself first).
func allDirs(t *Tree) []*Tree {
	if t.Kind != 'd' {
		return nil
	}
	out := []*Tree{t}
	for _, e := range t.Ents {
		out = append(out, allDirs(e.T)...)
	}
	return out
}

func freshName(d *Tree, r *lib.Rng) string {
	for i := 0; i < 50; i++ {
		n := lib.Pick(r, names)
		ok := true
		for _, e := range d.Ents {
			if e.Name == n {
				ok = false
			}
		}
		if ok {
			return n
		}
	}
	return "zz-fresh"
}

// mutate returns a variant of the directory tree t and the name of the mutation.
func mutate(r *lib.Run, t *Tree) (*Tree, string) {
	u := t.clone()
	ds := allDirs(u)
	d := lib.Pick(r.Rng, ds)
	kind := r.Rng.Intn(12)
	pickEntry := func(pred func(*Tree) bool) int {
		var idx []int
		for i, e := range d.Ents {
			if pred(e.T) {
				idx = append(idx, i)
			}
		}
		if len(idx) == 0 {
			return -1
		}
		return lib.Pick(r.Rng, idx)
	}
	isF := func(x *Tree) bool { return x.Kind == 'f' }
	isL := func(x *Tree) bool { return x.Kind == 'l' }
	anyT := func(x *Tree) bool { return true }
	name := "noop"
	switch kind {
	case 0: // rename
		if i := pickEntry(anyT); i >= 0 {
			d.Ents[i].Name = freshName(d, r.Rng)
			name = "rename"
		}
	case 1: // move an entry into a new sub-directory
		if i := pickEntry(anyT); i >= 0 {
			e := d.Ents[i]
			d.Ents[i] = E(e.Name, D(E(lib.Pick(r.Rng, names), e.T)))
			name = "nest"
		}
	case 2: // split a file in two
		if i := pickEntry(func(x *Tree) bool { return x.Kind == 'f' && len(x.Data) >= 2 }); i >= 0 {
			c := d.Ents[i].T.Data
			k := 1 + r.Rng.Intn(len(c)-1)
			// the second half goes into the bytewise next name so the walk order keeps the bytes in place
			nn := d.Ents[i].Name + "\x01"
			if i+1 < len(d.Ents) && !(nn < d.Ents[i+1].Name) {
				break
			}
			d.Ents[i].T = F(c[:k])
			d.Ents = append(d.Ents, E(nn, F(c[k:])))
			name = "split"
		}
	case 3: // retarget a symlink
		if i := pickEntry(isL); i >= 0 {
			d.Ents[i].T = L(d.Ents[i].T.Data + "2")
			name = "retarget"
		}
	case 4: // symlink -> file holding the marker byte
		if i := pickEntry(isL); i >= 0 {
			d.Ents[i].T = F("\x02")
			name = "link-to-marker-file"
		}
	case 5: // add an empty directory or an empty file
		if r.Rng.Bool() {
			d.Ents = append(d.Ents, E(freshName(d, r.Rng), D()))
			name = "add-empty-dir"
		} else {
			d.Ents = append(d.Ents, E(freshName(d, r.Rng), F("")))
			name = "add-empty-file"
		}
	case 6: // edit content
		if i := pickEntry(isF); i >= 0 {
			c := d.Ents[i].T.Data
			switch r.Rng.Intn(3) {
			case 0:
				c += "!"
			case 1:
				if len(c) > 0 {
					b := []byte(c)
					b[r.Rng.Intn(len(b))] ^= 1
					c = string(b)
				} else {
					c = "\x00"
				}
			default:
				c = "~" + c
			}
			d.Ents[i].T = F(c)
			name = "edit"
		}
	case 7: // delete an entry
		if i := pickEntry(anyT); i >= 0 {
			d.Ents = append(d.Ents[:i:i], d.Ents[i+1:]...)
			name = "delete"
		}
	case 8: // swap the contents of two files
		i, j := pickEntry(isF), pickEntry(isF)
		if i >= 0 && j >= 0 && i != j {
			d.Ents[i].T, d.Ents[j].T = d.Ents[j].T, d.Ents[i].T
			name = "swap"
		}
	case 9: // add a symlink / a non-empty file
		if r.Rng.Bool() {
			d.Ents = append(d.Ents, E(freshName(d, r.Rng), L(randTarget(r))))
			name = "add-link"
		} else {
			d.Ents = append(d.Ents, E(freshName(d, r.Rng), F("q")))
			name = "add-file"
		}
	case 10: // file -> directory holding the same bytes
		if i := pickEntry(isF); i >= 0 {
			d.Ents[i].T = D(E("part", F(d.Ents[i].T.Data)))
			name = "file-to-dir"
		}
	case 11: // hoist the entries of a sub-directory
		if i := pickEntry(func(x *Tree) bool { return x.Kind == 'd' && len(x.Ents) == 1 }); i >= 0 {
			d.Ents[i].T = d.Ents[i].T.Ents[0].T
			name = "hoist"
		}
	}
	u.sortRec()
	return u, name
}

func main() {
	logging.SetLevel(logging.ERROR, "plz")
	r := lib.Start()
	defer r.Finish()
	r.Rule = "pre/sha1: the tree is a symlink or a directory with >= 2 entries; pair: the two trees differ; distinct by op line"
	scratch := os.Getenv("VERIF_SCRATCH")
	if scratch == "" {
		scratch = r.OutDir
	}
	scratch, _ = filepath.Abs(scratch)
	workDir, extDir = filepath.Join(scratch, "w"), filepath.Join(scratch, "x")
	for _, d := range []string{workDir, extDir} {
		os.RemoveAll(d)
		if err := os.MkdirAll(d, 0o755); err != nil {
			panic(err)
		}
	}
	defer os.RemoveAll(workDir)
	defer os.RemoveAll(extDir)
	if err := os.Chdir(workDir); err != nil {
		panic(err)
	}
	if ops := r.ReplayOps(); ops != nil {
		for _, op := range ops {
			runOp(r, op)
		}
		return
	}

	// 1. exhaustive small family, grouped by the real SHA-1 path hash
	cs := []string{"", "x", "y", "xy"}
	fam := smallFamily(cs)
	groups := map[string][]*Tree{}
	var order []string
	for i, t := range fam {
		if i%r.N(8, 1) == 0 {
			runOp(r, opPre("sha1", fakeRoot, "t", "", t))
		}
		runOp(r, opPre("pre", fakeRoot, "t", "", t))
		h, err := hashTree(fakeRoot, "t", "", t, sha1.New, 1)
		if err != nil {
			// a hash error is an outcome of that tree (already emitted by the pre op above), never the end of the run
			r.Count("family-hash-error:" + errKind(err))
			continue
		}
		k := string(h)
		if _, ok := groups[k]; !ok {
			order = append(order, k)
		}
		groups[k] = append(groups[k], t)
	}
	r.Exhaust = true
	r.Count(fmt.Sprintf("family-trees=%d", len(fam)))
	r.Count(fmt.Sprintf("family-distinct-hashes=%d", len(order)))
	step := r.N(6, 1)
	n := 0
	for _, k := range order {
		g := groups[k]
		for i := 1; i < len(g); i++ {
			// every member against the group's first tree: a failing input each; the model sees a sample
			cls := classify(fakeRoot, g[0], g[i])
			n++
			if n%step == 0 || cls == "" {
				runOp(r, opPair(fakeRoot, "t", g[0], g[i]))
			} else {
				r.OracleFail(cls, opPair(fakeRoot, "t", g[0], g[i]), "different trees, same path hash (family grouping)")
				r.Count("family-collision:" + cls)
			}
		}
	}
	// negatives: members of different groups
	for i := 0; i < r.N(300, 2000); i++ {
		t, u := lib.Pick(r.Rng, fam), lib.Pick(r.Rng, fam)
		runOp(r, opPair(fakeRoot, "t", t, u))
	}

	// 2. random larger trees and their mutations
	paths := []string{"t", "pkg/out", "plz-out/gen/p/o", "$W/t", "$W//q/t", "a b/t"}
	roots := []string{fakeRoot, "$W", "$W/", "/R/", "relroot", ""}
	for i := 0; i < r.N(250, 4000); i++ {
		t := randTree(r, 3)
		if t.Kind != 'd' && r.Rng.Chance(80) {
			t = D(E("a", t), E("b", randTree(r, 2)), E("c", randTree(r, 2)))
		}
		root, path := fakeRoot, "t"
		if r.Rng.Chance(30) {
			root, path = lib.Pick(r.Rng, roots), lib.Pick(r.Rng, paths)
		}
		if strings.HasPrefix(expandModel(relDest(expandModel(root), expandModel(path))), "/") {
			path = "t" // keep the path repo-relative here; absolute paths are exercised in part 3
		}
		if t.Kind == 'l' && !managed(expandModel(root), expandModel(path), t) {
			t = L("a") // system-tool links need a real destination: part 3
		}
		kind := "pre"
		if r.Rng.Chance(25) {
			kind = "sha1"
		}
		runOp(r, opPre(kind, root, path, "", t))
		r.Count(fmt.Sprintf("random-nodes<=%d", (nodes(t)/5+1)*5))
		if t.Kind == 'd' {
			for k := 0; k < 3; k++ {
				u, mname := mutate(r, t)
				for try := 0; try < 6 && mname == "noop"; try++ {
					u, mname = mutate(r, t)
				}
				if !u.valid() {
					continue
				}
				r.Count("mutation:" + mname)
				runOp(r, opPair(root, path, t, u))
			}
		} else if managed(expandModel(root), expandModel(path), t) {
			u := randTree(r, 1)
			if managed(expandModel(root), expandModel(path), u) {
				runOp(r, opPair(root, path, t, u))
			}
		}
	}

	// 3a. top-level links into the real root by absolute path, re-pointed between existing files of equal contents
	for _, pr := range [][2]string{{"x", "y"}, {"a", "d/a"}, {"a b", "a"}, {"d/e/f", "d/e/g"}} {
		runOp(r, opPair("$W", "t", L("$W/"+pr[0]), L("$W/"+pr[1])))
		runOp(r, opPair("$W/", "pkg/out", L("$W/"+pr[0]), L("$W//"+pr[1])))
		runOp(r, opPre("pre", "$W", "t", "same contents", L("$W/"+pr[0])))
		runOp(r, opPre("pre", "$W", "t", "same contents", L("$W/"+pr[1])))
		r.Count("link-under-real-root-repointed")
	}
	// 3. top-level symlinks: managed (relative / under the root as a string), system tools, absolute paths
	for i := 0; i < r.N(80, 1500); i++ {
		root := lib.Pick(r.Rng, []string{fakeRoot, "$W", "/R/"})
		var t *Tree
		ext := ""
		path := "t"
		switch r.Rng.Intn(5) {
		case 0:
			t = L(randTarget(r))
			if !managed(expandModel(root), path, t) { // a system link must resolve: give it a real destination
				t = L("$X/tool")
				ext = randContent(r)
			}
		case 1:
			t = L("$X/tool")
			ext = randContent(r)
			r.Count("system-tool-link")
		case 2: // absolute path outside the root, relative destination: hashed by content
			path = "$X/bin/link"
			t = L("$X/tool")
			ext = randContent(r)
			r.Count("absolute-path-link")
		case 3: // destination written as an absolute path under the REAL root ($W): the destination file exists
			root = "$W"
			n1 := lib.Pick(r.Rng, names)
			t = L("$W/" + n1)
			ext = randContent(r)
			r.Count("link-under-real-root")
			// re-pointing the link to another in-root file with the same contents must change the hash
			if n2 := lib.Pick(r.Rng, names); n2 != n1 {
				runOp(r, opPair(root, path, t, L("$W/"+n2)))
				r.Count("link-under-real-root-repointed")
			}
		default:
			t = L(lib.Pick(r.Rng, []string{fakeRoot + "/a", fakeRoot + "a", fakeRoot + "//a/b", "a", fakeRoot}))
			if !managed(expandModel(root), path, t) {
				t = L("a")
			}
			u := L(lib.Pick(r.Rng, []string{fakeRoot + "/a", fakeRoot + "a", "a", "a/b", "b"}))
			if managed(expandModel(root), path, u) {
				runOp(r, opPair(root, path, t, u))
			}
			v := F("\x02" + relDest(expandModel(root), t.Data))
			runOp(r, opPair(root, path, t, v))
		}
		runOp(r, opPre("pre", root, path, ext, t))
		runOp(r, opPre("sha1", root, path, ext, t))
	}

	// 4. malformed stream
	for _, op := range []string{
		"pre 2f52 74 - d[62=f78,61=f78]", // unsorted entries
		"pre 2f52 74 - d[61=f78,61=f79]", // duplicate name
		"pre 2f52 74 - d[612f62=f78]",    // slash in a name
		"pre 2f52 74 - d[2e=f78]",        // "."
		"pre 2f52 74 - d[61=f7]",         // odd hex
		"pre 2f52 74 - d[61=f78",         // unterminated
		"pre 2f52 74 - g78",
		"pre 2f52 74 zz f78",
		"pair 2f52 74 f78",
		"pair 2f52 74 l2f6574632f78 f78", // unmanaged top-level link in a pair
		"hash 2f52 74 - f78",
	} {
		runOp(r, op)
		r.Count("malformed")
	}
}
