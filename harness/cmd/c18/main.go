// C18 harness: see verif/harness/asplib/c18.go.
package main

import "verif/harness/asplib"

func main() { asplib.MainC18() }
