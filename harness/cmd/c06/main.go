// C06 harness: the real cycleDetector (reached through core.CycleCheckForVerif, build tag verif) on real
// core.BuildGraph objects, against the Lean model (exact returned cycle) and against an independent
// Tarjan SCC oracle.
//
// Op line:  check <nodes> <adj>
//
//	<nodes>  ids in graph.AllTargets() order (label order)      e.g. 2,0,1
//	<adj>    id:deps;id:deps;…  deps in target.Dependencies() order, "-" = none   e.g. 2:0,1;0:1;1:-
//
// Output:   none | cycle <ids of errCycle.Cycle>
//
// Op line:  kcheck <nodes> <kadj>     with <kadj> = id:<dep><kind>,…;…  kind letters: d deps, t tool, s source label only,
//	a data, r run-time dependency, i internal dependency
//
// The graph is declared through the public BuildTarget API (AddDependency / AddTool / AddSource / AddDatum /
// AddMaybeExportedDependency(…, internal / runtime)) and resolved by ResolveDependencies, so Dependencies() (every kind)
// and BuildDependencies() (kinds d and t only) differ.  <kadj> lists Dependencies() in order; the kind letter is checked
// against BuildDependencies().  The oracle judges Check() against the graph over ALL resolved dependencies.
//
// Op line:  seq <step> <step> …      with <step> = <nodes>/<adj> as above
//
// ONE detector (core.NewCycleDetectorForVerif, as BuildState keeps one per build) checks a graph that grows
// between the calls (targets are added, dependencies get resolved); step i is the graph as the real code
// presents it at the i-th call.  Output: the results of the calls joined by "|".
package main

import (
	"fmt"
	"strings"

	"github.com/thought-machine/please/src/cli"
	"github.com/thought-machine/please/src/core"
	"verif/harness/lib"
)

func init() { cli.InitLogging(cli.MinVerbosity) } // the detector logs at debug level on every call

type spec struct {
	nodes []int         // ids in intended AllTargets order
	adj   map[int][]int // id -> deps (any order, repeats allowed)
}

func parseOp(op string) (*spec, bool) {
	f := strings.Split(op, " ")
	if len(f) != 3 || f[0] != "check" {
		return nil, false
	}
	s := &spec{adj: map[int][]int{}}
	num := func(x string) (int, bool) {
		if x == "" || len(x) > 6 {
			return 0, false
		}
		n := 0
		for _, c := range x {
			if c < '0' || c > '9' {
				return 0, false
			}
			n = n*10 + int(c-'0')
		}
		return n, true
	}
	list := func(x string) ([]int, bool) {
		if x == "-" {
			return nil, true
		}
		var out []int
		for _, p := range strings.Split(x, ",") {
			n, ok := num(p)
			if !ok {
				return nil, false
			}
			out = append(out, n)
		}
		return out, true
	}
	var ok bool
	if s.nodes, ok = list(f[1]); !ok {
		return nil, false
	}
	in := map[int]bool{}
	for _, n := range s.nodes {
		if in[n] {
			return nil, false
		}
		in[n] = true
	}
	if f[2] != "-" {
		for _, e := range strings.Split(f[2], ";") {
			kv := strings.Split(e, ":")
			if len(kv) != 2 {
				return nil, false
			}
			k, ok := num(kv[0])
			if !ok || !in[k] {
				return nil, false
			}
			if _, dup := s.adj[k]; dup {
				return nil, false
			}
			ds, ok := list(kv[1])
			if !ok {
				return nil, false
			}
			for _, d := range ds {
				if !in[d] {
					return nil, false
				}
			}
			s.adj[k] = append([]int{}, ds...)
		}
	}
	if len(s.adj) != len(s.nodes) {
		return nil, false
	}
	return s, true
}

// labelFor gives the i-th node (in intended AllTargets order) a label that sorts at position i. Packages
// and names vary so that BuildLabel.Less is exercised on both components.
func labelFor(i, n int) core.BuildLabel {
	return core.NewBuildLabel(fmt.Sprintf("p%03d", i/3), fmt.Sprintf("t%03d", i%3))
}

type built struct {
	graph   *core.BuildGraph
	idOf    map[*core.BuildTarget]int
	targets map[int]*core.BuildTarget
}

// buildDirect constructs the resolved graph of a spec through the hook (accepts self-dependencies).
func buildDirect(s *spec) *built {
	b := &built{graph: core.NewGraph(), idOf: map[*core.BuildTarget]int{}, targets: map[int]*core.BuildTarget{}}
	for i, id := range s.nodes {
		t := core.NewBuildTarget(labelFor(i, len(s.nodes)))
		b.graph.AddTarget(t)
		b.idOf[t] = id
		b.targets[id] = t
	}
	for _, id := range s.nodes {
		for _, d := range s.adj[id] {
			core.ResolveDependencyForVerif(b.targets[id], b.targets[d])
		}
	}
	return b
}

// canonical renders the op line as the real graph presents it: AllTargets order, Dependencies() order.
func (b *built) canonical() (string, []int, map[int][]int) {
	var nodes []int
	adj := map[int][]int{}
	var parts []string
	for _, t := range b.graph.AllTargets() {
		id := b.idOf[t]
		nodes = append(nodes, id)
		var ds []int
		for _, d := range t.Dependencies() {
			ds = append(ds, b.idOf[d])
		}
		adj[id] = ds
		parts = append(parts, fmt.Sprintf("%d:%s", id, lib.Nats(ds)))
	}
	a := "-"
	if len(parts) > 0 {
		a = strings.Join(parts, ";")
	}
	return "check " + lib.Nats(nodes) + " " + a, nodes, adj
}

// sccCyclic: independent Tarjan; a graph has a cycle iff some SCC has more than one node or a self-edge.
func sccCyclic(nodes []int, adj map[int][]int) (bool, map[int]int) {
	index, low, comp := map[int]int{}, map[int]int{}, map[int]int{}
	on := map[int]bool{}
	var stack []int
	next, ncomp := 0, 0
	cyclic := false
	var strong func(v int)
	strong = func(v int) {
		index[v], low[v] = next, next
		next++
		stack = append(stack, v)
		on[v] = true
		for _, w := range adj[v] {
			if w == v {
				cyclic = true
			}
			if _, seen := index[w]; !seen {
				strong(w)
				if low[w] < low[v] {
					low[v] = low[w]
				}
			} else if on[w] && index[w] < low[v] {
				low[v] = index[w]
			}
		}
		if low[v] == index[v] {
			size := 0
			for {
				w := stack[len(stack)-1]
				stack = stack[:len(stack)-1]
				on[w] = false
				comp[w] = ncomp
				size++
				if w == v {
					break
				}
			}
			if size > 1 {
				cyclic = true
			}
			ncomp++
		}
	}
	for _, v := range nodes {
		if _, seen := index[v]; !seen {
			strong(v)
		}
	}
	return cyclic, comp
}

func hasEdge(adj map[int][]int, a, b int) bool {
	for _, d := range adj[a] {
		if d == b {
			return true
		}
	}
	return false
}

// observe runs the real detector on a built graph, applies the direct oracle and emits the case.
func observe(r *lib.Run, b *built, tag string) {
	op, nodes, adj := b.canonical()
	var cyc []int
	res := lib.Safely(func() string {
		c := core.CycleCheckForVerif(b.graph)
		if c == nil {
			return "none"
		}
		for _, t := range c {
			cyc = append(cyc, b.idOf[t])
		}
		return "cycle " + lib.Nats(cyc)
	})
	cyclic, _ := sccCyclic(nodes, adj)
	edges := 0
	for _, ds := range adj {
		edges += len(ds)
	}
	switch {
	case res == "panic":
		r.OracleFail("detector-panics", op, "panic in Check")
	case res == "none":
		if cyclic {
			r.OracleFail("cycle-missed", op, "graph has a cycle (Tarjan) but Check returned nil")
		}
	default:
		if !cyclic {
			r.OracleFail("acyclic-reported", op, res)
		}
		ok := len(cyc) > 0
		for i := range cyc {
			if !hasEdge(adj, cyc[i], cyc[(i+1)%len(cyc)]) {
				ok = false
			}
		}
		if !ok {
			r.OracleFail("reported-not-a-cycle", op, res)
		}
		seen := map[int]bool{}
		for _, c := range cyc {
			if seen[c] {
				r.Count("reported-cycle-repeats-node")
			}
			seen[c] = true
		}
	}
	// generator histogram
	r.Count(tag)
	r.Count(fmt.Sprintf("n=%02d", len(nodes)))
	if cyclic {
		r.Count("cyclic")
		self := false
		for v, ds := range adj {
			for _, d := range ds {
				if d == v {
					self = true
				}
			}
		}
		if self {
			r.Count("cyclic:has-self-loop")
		}
		if len(cyc) > 0 {
			r.Count(fmt.Sprintf("reported-len=%d", min(len(cyc), 9)))
			// cycle found after some subgraph had been completed / through a tail that is not on the cycle
			if len(nodes) > 0 && !contains(cyc, nodes[0]) {
				r.Count("cyclic:first-target-not-on-reported-cycle")
			}
		}
	} else {
		r.Count("acyclic")
	}
	r.Emit(op, res, edges > 0)
}

func contains(xs []int, x int) bool {
	for _, y := range xs {
		if x == y {
			return true
		}
	}
	return false
}

// ---------------------------------------------------------------- dependencies of every kind

type kedge struct {
	to   int
	kind byte // d t s a r i
}

type kspec struct {
	nodes []int // ids in intended label order
	adj   map[int][]kedge
}

func parseKOp(op string) (*kspec, bool) {
	f := strings.Split(op, " ")
	if len(f) != 3 || f[0] != "kcheck" {
		return nil, false
	}
	// reuse the plain parser for the node list and the shape of the adjacency
	plain := make([]string, 0)
	k := &kspec{adj: map[int][]kedge{}}
	if f[2] != "-" {
		for _, e := range strings.Split(f[2], ";") {
			kv := strings.Split(e, ":")
			if len(kv) != 2 || kv[1] == "" {
				return nil, false
			}
			var ds []string
			var id int
			if _, err := fmt.Sscanf(kv[0], "%d", &id); err != nil || fmt.Sprint(id) != kv[0] {
				return nil, false
			}
			if kv[1] != "-" {
				for _, tok := range strings.Split(kv[1], ",") {
					if len(tok) < 2 || !strings.ContainsRune("dtsari", rune(tok[len(tok)-1])) {
						return nil, false
					}
					var to int
					if _, err := fmt.Sscanf(tok[:len(tok)-1], "%d", &to); err != nil || fmt.Sprint(to) != tok[:len(tok)-1] {
						return nil, false
					}
					k.adj[id] = append(k.adj[id], kedge{to, tok[len(tok)-1]})
					ds = append(ds, fmt.Sprint(to))
				}
			}
			if len(ds) == 0 {
				plain = append(plain, kv[0]+":-")
			} else {
				plain = append(plain, kv[0]+":"+strings.Join(ds, ","))
			}
		}
	}
	adj := "-"
	if len(plain) > 0 {
		adj = strings.Join(plain, ";")
	}
	sp, ok := parseOp("check " + f[1] + " " + adj)
	if !ok {
		return nil, false
	}
	k.nodes = sp.nodes
	return k, true
}

// buildKinded declares the graph through the public API and lets the real code resolve it.  Self-dependencies cannot be
// declared that way (AddDependency refuses them); they go through the hook, as build dependencies.
func buildKinded(k *kspec) *built {
	b := &built{graph: core.NewGraph(), idOf: map[*core.BuildTarget]int{}, targets: map[int]*core.BuildTarget{}}
	for i, id := range k.nodes {
		t := core.NewBuildTarget(labelFor(i, len(k.nodes)))
		b.graph.AddTarget(t)
		b.idOf[t] = id
		b.targets[id] = t
	}
	for _, id := range k.nodes {
		t := b.targets[id]
		for _, e := range k.adj[id] {
			d := b.targets[e.to]
			if e.to == id {
				core.ResolveDependencyForVerif(t, d)
				continue
			}
			switch e.kind {
			case 'd':
				t.AddDependency(d.Label)
			case 't':
				t.AddTool(d.Label)
			case 's':
				t.AddSource(d.Label)
			case 'a':
				t.AddDatum(d.Label)
			case 'r':
				t.IsBinary = true // only binaries may have run-time dependencies
				t.AddMaybeExportedDependency(d.Label, false, false, false, true)
			case 'i':
				t.AddMaybeExportedDependency(d.Label, false, false, true, false)
			}
		}
	}
	for _, id := range k.nodes {
		if err := b.targets[id].ResolveDependencies(b.graph); err != nil {
			panic(err)
		}
	}
	return b
}

// observeKinded: like observe, but the op line carries the kind of every dependency as the real accessors show it.
func observeKinded(r *lib.Run, b *built, want *kspec, tag string) {
	_, nodes, adj := b.canonical() // Dependencies(): every kind
	wantKind := map[[2]int]byte{}
	for id, es := range want.adj {
		for _, e := range es {
			if _, dup := wantKind[[2]int{id, e.to}]; !dup {
				wantKind[[2]int{id, e.to}] = e.kind
			}
		}
	}
	var parts []string
	nonBuild := 0
	for _, id := range nodes {
		inBuild := map[int]bool{}
		for _, d := range b.targets[id].BuildDependencies() {
			inBuild[b.idOf[d]] = true
		}
		var es []string
		for _, d := range adj[id] {
			kind := wantKind[[2]int{id, d}]
			if kind == 0 {
				kind = 'd'
			}
			isBuildKind := kind == 'd' || kind == 't'
			if d == id {
				isBuildKind, kind = true, 'd'
			}
			if isBuildKind != inBuild[d] {
				// the accessors disagree with how the edge was declared: say what the real code says
				if inBuild[d] {
					kind = 'd'
				} else {
					kind = 'a'
				}
				r.Count("kinded:accessor-class-differs-from-declaration")
			}
			if !inBuild[d] {
				nonBuild++
			}
			es = append(es, fmt.Sprintf("%d%c", d, kind))
		}
		v := "-"
		if len(es) > 0 {
			v = strings.Join(es, ",")
		}
		parts = append(parts, fmt.Sprintf("%d:%s", id, v))
	}
	kadj := "-"
	if len(parts) > 0 {
		kadj = strings.Join(parts, ";")
	}
	op := "kcheck " + lib.Nats(nodes) + " " + kadj
	var cyc []int
	res := lib.Safely(func() string {
		c := core.CycleCheckForVerif(b.graph)
		if c == nil {
			return "none"
		}
		for _, t := range c {
			cyc = append(cyc, b.idOf[t])
		}
		return "cycle " + lib.Nats(cyc)
	})
	cyclic, _ := sccCyclic(nodes, adj) // over ALL resolved dependencies
	buildAdj := map[int][]int{}
	for _, id := range nodes {
		for _, d := range b.targets[id].BuildDependencies() {
			buildAdj[id] = append(buildAdj[id], b.idOf[d])
		}
	}
	buildCyclic, _ := sccCyclic(nodes, buildAdj)
	switch {
	case res == "panic":
		r.OracleFail("detector-panics", op, "panic in Check")
	case res == "none":
		if cyclic {
			detail := "the graph over all resolved dependencies has a cycle (Tarjan) but Check returned nil"
			if !buildCyclic {
				detail += "; every cycle uses a dependency that is not a build-time dependency (source/data/run-time/internal)"
			}
			r.OracleFail("cycle-missed", op, detail)
		}
	default:
		ok := len(cyc) > 0
		for i := range cyc {
			if !hasEdge(adj, cyc[i], cyc[(i+1)%len(cyc)]) {
				ok = false
			}
		}
		if !cyclic {
			r.OracleFail("acyclic-reported", op, res)
		} else if !ok {
			r.OracleFail("reported-not-a-cycle", op, res)
		}
	}
	r.Count(tag)
	if nonBuild > 0 {
		r.Count("kinded:has-non-build-dependency")
	}
	if cyclic && !buildCyclic {
		r.Count("kinded:cyclic-only-through-non-build-dependencies")
	}
	r.Emit(op, res, len(adj) > 0 && nonBuild > 0)
}

// exhaustiveKinded: every digraph without self-dependencies on n targets, every edge with each of the six kinds.
func exhaustiveKinded(r *lib.Run, n int, kinds string) {
	type pr struct{ a, b int }
	var cells []pr
	for a := 0; a < n; a++ {
		for b := 0; b < n; b++ {
			if a != b {
				cells = append(cells, pr{a, b})
			}
		}
	}
	base := len(kinds) + 1
	total := 1
	for range cells {
		total *= base
	}
	for m := 0; m < total; m++ {
		k := &kspec{adj: map[int][]kedge{}}
		for i := 0; i < n; i++ {
			k.nodes = append(k.nodes, i)
		}
		x := m
		for _, c := range cells {
			d := x % base
			x /= base
			if d > 0 {
				k.adj[c.a] = append(k.adj[c.a], kedge{c.b, kinds[d-1]})
			}
		}
		observeKinded(r, buildKinded(k), k, fmt.Sprintf("exhaustive-kinded-n%d", n))
	}
}

func randomKinded(r *lib.Run, maxN int) *kspec {
	s, _ := randomSpec(r, maxN)
	g := r.Rng
	k := &kspec{nodes: s.nodes, adj: map[int][]kedge{}}
	pNon := 10 + g.Intn(60)
	for id, ds := range s.adj {
		seen := map[int]bool{}
		for _, d := range ds {
			if seen[d] {
				continue
			}
			seen[d] = true
			kind := byte('d')
			if g.Chance(pNon) {
				kind = "sari"[g.Intn(4)]
			} else if g.Chance(15) {
				kind = 't'
			}
			k.adj[id] = append(k.adj[id], kedge{d, kind})
		}
	}
	return k
}

// ---------------------------------------------------------------- sequences of checks on one detector

// seqSpec: the final node order (ids in label order), the step at which each node enters the graph, and the
// edges added before each call.
type seqSpec struct {
	order  []int       // all ids, in label order
	enter  map[int]int // id -> first step in which the target exists
	edges  [][][2]int  // per step: edges (from, to) resolved just before that call
}

func runSeq(r *lib.Run, q *seqSpec, tag string) {
	graph := core.NewGraph()
	det := core.NewCycleDetectorForVerif(graph)
	b := &built{graph: graph, idOf: map[*core.BuildTarget]int{}, targets: map[int]*core.BuildTarget{}}
	pos := map[int]int{}
	for i, id := range q.order {
		pos[id] = i
	}
	var steps, outs []string
	missed, total := false, 0
	for step := range q.edges {
		for _, id := range q.order {
			if q.enter[id] == step {
				t := core.NewBuildTarget(labelFor(pos[id], len(q.order)))
				graph.AddTarget(t)
				b.idOf[t] = id
				b.targets[id] = t
			}
		}
		for _, e := range q.edges[step] {
			core.ResolveDependencyForVerif(b.targets[e[0]], b.targets[e[1]])
		}
		op, nodes, adj := b.canonical()
		f := strings.Split(op, " ")
		steps = append(steps, f[1]+"/"+f[2])
		var cyc []int
		res := lib.Safely(func() string {
			c := det.Check()
			if c == nil {
				return "none"
			}
			for _, t := range c {
				cyc = append(cyc, b.idOf[t])
			}
			return "cycle " + lib.Nats(cyc)
		})
		outs = append(outs, res)
		total++
		// the oracle judges every call against the graph as resolved at that moment
		seqOp := "seq " + strings.Join(steps, " ")
		cyclic, _ := sccCyclic(nodes, adj)
		switch {
		case res == "panic":
			r.OracleFail("detector-panics", seqOp, "panic in Check (call "+fmt.Sprint(step+1)+")")
		case res == "none":
			if cyclic {
				missed = true
				r.OracleFail("cycle-missed", seqOp, fmt.Sprintf("call %d on one detector: the graph resolved so far has a cycle (Tarjan) but Check returned nil; results so far: %s", step+1, strings.Join(outs, "|")))
			}
		default:
			ok := len(cyc) > 0
			for i := range cyc {
				if !hasEdge(adj, cyc[i], cyc[(i+1)%len(cyc)]) {
					ok = false
				}
			}
			if !cyclic {
				r.OracleFail("acyclic-reported", seqOp, fmt.Sprintf("call %d: %s", step+1, res))
			} else if !ok {
				r.OracleFail("reported-not-a-cycle", seqOp, fmt.Sprintf("call %d: %s", step+1, res))
			}
		}
	}
	_ = missed
	r.Count(tag)
	r.Count(fmt.Sprintf("seq-calls=%d", min(total, 9)))
	first := -1
	for i, o := range outs {
		if o != "none" && first < 0 {
			first = i
		}
	}
	switch {
	case first < 0:
		r.Count("seq:never-cyclic")
	case first == 0:
		r.Count("seq:cyclic-from-first-call")
	default:
		r.Count("seq:cycle-closes-after-earlier-clean-calls")
	}
	r.Emit("seq "+strings.Join(steps, " "), strings.Join(outs, "|"), first > 0 || total > 1)
}

// replaySeq rebuilds a sequence from its op line: targets must only be added, edges only be added.
func replaySeq(r *lib.Run, op string) {
	toks := strings.Split(op, " ")[1:]
	bad := func() { r.Emit(op, "bad-op", false) }
	if len(toks) == 0 {
		bad()
		return
	}
	var specs []*spec
	for _, tk := range toks {
		parts := strings.Split(tk, "/")
		if len(parts) != 2 {
			bad()
			return
		}
		sp, ok := parseOp("check " + parts[0] + " " + parts[1])
		if !ok {
			bad()
			return
		}
		specs = append(specs, sp)
	}
	last := specs[len(specs)-1]
	q := &seqSpec{order: last.nodes, enter: map[int]int{}, edges: make([][][2]int, len(specs))}
	have := map[[2]int]int{}
	for i, sp := range specs {
		// the node order of every step must be the final order restricted to the nodes present
		var want []int
		in := map[int]bool{}
		for _, n := range sp.nodes {
			in[n] = true
			if _, seen := q.enter[n]; !seen {
				q.enter[n] = i
			}
		}
		for _, n := range last.nodes {
			if in[n] {
				want = append(want, n)
			}
		}
		if lib.Nats(want) != lib.Nats(sp.nodes) || len(want) != len(sp.nodes) {
			r.Count("replay-skipped:seq-node-order-not-monotone")
			return
		}
		for n, st := range q.enter {
			if st < i && !in[n] {
				r.Count("replay-skipped:seq-target-removed")
				return
			}
		}
		cnt := map[[2]int]int{}
		for _, a := range sp.nodes {
			for _, d := range sp.adj[a] {
				cnt[[2]int{a, d}]++
			}
		}
		for e, c := range have {
			if cnt[e] < c {
				r.Count("replay-skipped:seq-edge-removed")
				return
			}
		}
		for _, a := range sp.nodes {
			for _, d := range sp.adj[a] {
				e := [2]int{a, d}
				if have[e] < cnt[e] {
					have[e]++
					q.edges[i] = append(q.edges[i], e)
				}
			}
		}
	}
	runSeq(r, q, "replay-seq")
}

// randomSeq: a final graph whose edges get resolved in a random order, a few per call; some targets only enter
// the graph later.  Biased towards a cycle that closes late.
func randomSeq(r *lib.Run, maxN int) *seqSpec {
	g := r.Rng
	n := 2 + g.Intn(maxN-1)
	ids := make([]int, n)
	for i := range ids {
		ids[i] = i
	}
	if g.Chance(60) {
		lib.Shuffle(g, ids)
	}
	var edges [][2]int
	// a DAG over a random topological order …
	topo := append([]int{}, ids...)
	lib.Shuffle(g, topo)
	p := 15 + g.Intn(40)
	for i := 0; i < n; i++ {
		for j := i + 1; j < n; j++ {
			if g.Chance(p) {
				edges = append(edges, [2]int{topo[i], topo[j]})
			}
		}
	}
	lib.Shuffle(g, edges)
	// … plus, usually, back edges; mostly resolved last
	nb := 0
	if g.Chance(75) {
		nb = 1 + g.Intn(2)
	}
	var back [][2]int
	for k := 0; k < nb; k++ {
		i, j := g.Intn(n), g.Intn(n)
		if i < j {
			i, j = j, i
		}
		back = append(back, [2]int{topo[i], topo[j]})
	}
	if g.Chance(70) {
		edges = append(edges, back...)
	} else {
		edges = append(back, edges...)
		lib.Shuffle(g, edges)
	}
	q := &seqSpec{order: ids, enter: map[int]int{}}
	// split into calls
	for len(edges) > 0 {
		k := 1 + g.Intn(3)
		if k > len(edges) {
			k = len(edges)
		}
		q.edges = append(q.edges, edges[:k])
		edges = edges[k:]
	}
	if len(q.edges) == 0 {
		q.edges = [][][2]int{nil}
	}
	if g.Chance(20) {
		q.edges = append(q.edges, nil) // one more call with nothing new
	}
	late := g.Chance(30)
	for _, id := range ids {
		q.enter[id] = 0
	}
	if late {
		for _, id := range ids {
			first := len(q.edges)
			for st, es := range q.edges {
				for _, e := range es {
					if (e[0] == id || e[1] == id) && st < first {
						first = st
					}
				}
			}
			if first == len(q.edges) {
				first = g.Intn(len(q.edges))
			}
			q.enter[id] = first
		}
	}
	return q
}

// exhaustiveSeq: every digraph on n targets, its edges resolved one per call, in matrix order and in reverse.
func exhaustiveSeq(r *lib.Run, n int) {
	type pr struct{ a, b int }
	var cells []pr
	for a := 0; a < n; a++ {
		for b := 0; b < n; b++ {
			cells = append(cells, pr{a, b})
		}
	}
	for m := 1; m < 1<<len(cells); m++ {
		var es [][2]int
		for i, c := range cells {
			if m>>i&1 == 1 {
				es = append(es, [2]int{c.a, c.b})
			}
		}
		for dir := 0; dir < 2; dir++ {
			q := &seqSpec{enter: map[int]int{}}
			for i := 0; i < n; i++ {
				q.order = append(q.order, i)
				q.enter[i] = 0
			}
			for i := range es {
				e := es[i]
				if dir == 1 {
					e = es[len(es)-1-i]
				}
				q.edges = append(q.edges, [][2]int{e})
			}
			runSeq(r, q, fmt.Sprintf("exhaustive-seq-n%d", n))
		}
	}
}

func runOp(r *lib.Run, op string, tag string) {
	if strings.HasPrefix(op, "kcheck ") {
		k, ok := parseKOp(op)
		if !ok {
			r.Emit(op, "bad-op", false)
			return
		}
		observeKinded(r, buildKinded(k), k, tag)
		return
	}
	if strings.HasPrefix(op, "seq") && (op == "seq" || strings.HasPrefix(op, "seq ")) {
		replaySeq(r, op)
		return
	}
	s, ok := parseOp(op)
	if !ok {
		r.Emit(op, "bad-op", false)
		return
	}
	observe(r, buildDirect(s), tag)
}

func specOp(s *spec) string {
	var parts []string
	for _, id := range s.nodes {
		parts = append(parts, fmt.Sprintf("%d:%s", id, lib.Nats(s.adj[id])))
	}
	a := "-"
	if len(parts) > 0 {
		a = strings.Join(parts, ";")
	}
	return "check " + lib.Nats(s.nodes) + " " + a
}

// exhaustive: every digraph (self-loops included) on n nodes, identity numbering.
func exhaustive(r *lib.Run, n int, selfLoops bool) {
	type pr struct{ a, b int }
	var cells []pr
	for a := 0; a < n; a++ {
		for b := 0; b < n; b++ {
			if a != b || selfLoops {
				cells = append(cells, pr{a, b})
			}
		}
	}
	total := 1 << len(cells)
	for m := 0; m < total; m++ {
		s := &spec{adj: map[int][]int{}}
		for i := 0; i < n; i++ {
			s.nodes = append(s.nodes, i)
			s.adj[i] = nil
		}
		for i, c := range cells {
			if m>>i&1 == 1 {
				s.adj[c.a] = append(s.adj[c.a], c.b)
			}
		}
		observe(r, buildDirect(s), fmt.Sprintf("exhaustive-n%d", n))
	}
}

// randomSpec: n nodes with a random numbering, shapes chosen to hit DAGs, single back edges, rho shapes,
// dense graphs, repeated dependencies.
func randomSpec(r *lib.Run, maxN int) (*spec, string) {
	g := r.Rng
	n := 1 + g.Intn(maxN)
	ids := make([]int, n)
	for i := range ids {
		ids[i] = i
	}
	if g.Chance(70) {
		lib.Shuffle(g, ids)
	}
	if g.Chance(10) { // sparse, large ids
		for i := range ids {
			ids[i] = ids[i]*7 + 3
		}
	}
	s := &spec{nodes: ids, adj: map[int][]int{}}
	for _, id := range ids {
		s.adj[id] = nil
	}
	add := func(a, b int) { s.adj[ids[a]] = append(s.adj[ids[a]], ids[b]) }
	shape := g.Intn(6)
	name := ""
	switch shape {
	case 0: // random DAG over a random topological order (position order != topological order)
		name = "dag"
		topo := g.Intn(2) == 0
		perm := make([]int, n)
		for i := range perm {
			perm[i] = i
		}
		if !topo {
			lib.Shuffle(g, perm)
		}
		p := 5 + g.Intn(40)
		for i := 0; i < n; i++ {
			for j := i + 1; j < n; j++ {
				if g.Chance(p) {
					add(perm[i], perm[j])
				}
			}
		}
	case 1: // DAG plus exactly one back edge (may or may not close a cycle)
		name = "dag+1"
		perm := make([]int, n)
		for i := range perm {
			perm[i] = i
		}
		lib.Shuffle(g, perm)
		p := 10 + g.Intn(40)
		for i := 0; i < n; i++ {
			for j := i + 1; j < n; j++ {
				if g.Chance(p) {
					add(perm[i], perm[j])
				}
			}
		}
		i, j := g.Intn(n), g.Intn(n)
		if i < j {
			i, j = j, i
		}
		add(perm[i], perm[j])
	case 2: // rho: a tail leading into a ring, plus completed side trees visited first
		name = "rho"
		tail := g.Intn(n)
		for i := 0; i+1 < n; i++ {
			add(i, i+1)
		}
		add(n-1, tail)
		for k := 0; k < n/3; k++ {
			a, b := g.Intn(n), g.Intn(n)
			if a < b {
				add(a, b)
			}
		}
	case 3: // uniformly random edges, any density
		name = "uniform"
		p := 2 + g.Intn(60)
		for i := 0; i < n; i++ {
			for j := 0; j < n; j++ {
				if g.Chance(p) {
					add(i, j)
				}
			}
		}
	case 4: // several disjoint components, a cycle only in a late one
		name = "components"
		k := 1 + g.Intn(4)
		for i := 0; i < n; i++ {
			for j := i + 1; j < n; j++ {
				if i%k == j%k && g.Chance(40) {
					add(i, j)
				}
			}
		}
		if g.Chance(60) && n >= 2 {
			hi := n - 1 - g.Intn(min(n, k))
			lo := hi % k
			if lo != hi {
				add(hi, lo)
			}
		}
	default: // repeated dependencies and self loops
		name = "multi"
		m := g.Intn(3 * n)
		for e := 0; e < m; e++ {
			a, b := g.Intn(n), g.Intn(n)
			add(a, b)
			if g.Chance(30) {
				add(a, b)
			}
		}
	}
	return s, "random-" + name
}

// resolvedGraph declares a graph through the public API (AddDependency, Provides/Requires) and lets the
// real ResolveDependencies compute the resolved dependencies; the op line is read back from the result.
func resolvedGraph(r *lib.Run, maxN int) *built {
	g := r.Rng
	n := 2 + g.Intn(maxN-1)
	b := &built{graph: core.NewGraph(), idOf: map[*core.BuildTarget]int{}, targets: map[int]*core.BuildTarget{}}
	order := make([]int, n)
	for i := range order {
		order[i] = i
	}
	lib.Shuffle(g, order)
	pkgs := map[string]bool{}
	for pos, id := range order {
		l := labelFor(pos, n)
		t := core.NewBuildTarget(l)
		b.graph.AddTarget(t)
		b.idOf[t] = id
		b.targets[id] = t
		if !pkgs[l.PackageName] {
			pkgs[l.PackageName] = true
			b.graph.AddPackage(core.NewPackage(l.PackageName))
		}
	}
	langs := []string{"go", "py"}
	for id := 0; id < n; id++ {
		t := b.targets[id]
		if g.Chance(40) {
			t.AddRequire(lib.Pick(g, langs))
		}
		if g.Chance(35) {
			var ls []core.BuildLabel
			for k := 0; k < 1+g.Intn(2); k++ {
				ls = append(ls, b.targets[g.Intn(n)].Label) // may name the requiring target itself
			}
			t.AddProvide(lib.Pick(g, langs), ls)
		}
	}
	for id := 0; id < n; id++ {
		for k := 0; k < g.Intn(4); k++ {
			d := g.Intn(n)
			if d != id { // AddDependency log.Fatals on a direct self-dependency
				b.targets[id].AddDependency(b.targets[d].Label)
			}
		}
	}
	for id := 0; id < n; id++ {
		if err := b.targets[id].ResolveDependencies(b.graph); err != nil {
			panic(err)
		}
	}
	return b
}

func main() {
	r := lib.Start()
	defer r.Finish()
	r.Rule = "graph has at least one dependency edge; distinct by op line (node order + adjacency)"
	if ops := r.ReplayOps(); ops != nil {
		for _, op := range ops {
			runOp(r, op, "replay")
		}
		return
	}
	// 1. all digraphs with self-loops on 0..4 nodes: 1 + 2 + 16 + 512 + 65536
	for n := 0; n <= 4; n++ {
		exhaustive(r, n, true)
	}
	// thorough: all loop-free digraphs on 5 nodes (2^20)
	if r.Thorough() {
		exhaustive(r, 5, false)
	}
	r.Exhaust = true
	// 2. random graphs up to 40 nodes, random numbering / iteration order
	for i := 0; i < r.N(6000, 100000); i++ {
		maxN := 8
		switch {
		case i%3 == 1:
			maxN = 16
		case i%3 == 2:
			maxN = 40
		}
		s, tag := randomSpec(r, maxN)
		runOp(r, specOp(s), tag)
	}
	// 3. graphs declared through AddDependency + provide/require and resolved by the real code
	for i := 0; i < r.N(1500, 20000); i++ {
		b := resolvedGraph(r, 12)
		observe(r, b, "resolved-by-real-code")
	}
	// 4. ONE detector re-checking a graph that grows between the calls (as BuildState does every idle period)
	exhaustiveSeq(r, 2)
	exhaustiveSeq(r, 3)
	for i := 0; i < r.N(4000, 60000); i++ {
		runSeq(r, randomSeq(r, []int{4, 7, 12}[i%3]), "random-seq")
	}
	// 5. dependencies of every kind, declared through the public API and resolved by the real code
	exhaustiveKinded(r, 2, "dtsari")
	exhaustiveKinded(r, 3, "dtsari")
	if r.Thorough() {
		exhaustiveKinded(r, 4, "da") // 3^12 graphs: absent / build / data
	}
	for i := 0; i < r.N(12000, 120000); i++ {
		k := randomKinded(r, []int{4, 4, 8, 16}[i%4])
		observeKinded(r, buildKinded(k), k, "random-kinded")
	}
	// 6. malformed op lines (both sides must reject)
	for _, op := range []string{"check", "check 0", "check 0,1 0:1", "check 0,0 0:-;0:-", "check 0 0:1", "check a 0:-",
		"check 0 0:-;1:-", "chk 0 0:-", "check 0 0:-:-", "check 0 0:-,", "seq", "seq 0", "seq 0/0:1", "seq 0/0:-/1", "kcheck 0,1 0:1x;1:-", "kcheck 0,1 0:1;1:-", "kcheck 0 0:5d"} {
		runOp(r, op, "malformed")
	}
}
