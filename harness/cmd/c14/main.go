// C14 harness: the directory cache's cleaner (src/cache/dir_cache.go: clean, shouldClean, markDir) on generated
// cache directories.
//
//	sc <u|c> <d|f> <hexname>                          shouldClean(name, isDir) of a plain / compressed cache
//	ex <u|c> <high> <low> <found> <marks> <late> <win> compressed-style exact run: every two candidates are at least a
//	                                                  grace period apart, so the eviction order is determined
//	sp <high> <low> <found> <marks> <late> <win> <evicted> <total>
//	                                                  the OUTCOME of a real pass over a layout checked against the order-free
//	                                                  specification; late = paths marked (by a real Retrieve) while the cleaner
//	                                                  was suspended between its walk and its eviction loop, or while an earlier
//	                                                  entry was being evicted; win = paths retrieved between the loop's test of
//	                                                  that very entry and its rename
//	fl <u|c> <k>                                      a one-file Store suspended before its k-th filesystem operation
//	                                                  while this process's cleaner runs with water marks 0/0
//	lay <u|c> <high> <low> <exact 0|1> <item>;<item>…  (replay / corpus / generator only) a cache LAYOUT: it is built, one
//	                                                  real pass is run, and the derived sp (or ex) line with the measured
//	                                                  sizes is what goes to the Lean side
//	      item = pkg,name,hexfile,d|f,bytes,atimeSecondsAgo,nested 0|1,mark 0|1|2|3,hexkey
//	      mark: 1 retrieved before the pass, 2 stored before the pass, 3 retrieved DURING the pass (after the walk, before the loop),
//	            4 retrieved in the window between the loop's isMarked test of that very entry and its rename,
//	            5 retrieved DURING the loop: when the first entry to be evicted (whichever it is) reaches its rename
//
// found   = hexpath:size:atime,…   every entry shouldClean recognises, with the size the walk measures
// marks   = hexpath:size,…         cache.added restricted to those paths
// Paths are relative to the cache directory.
package main

import (
	"encoding/base64"
	"fmt"
	"io"
	"os"
	"path/filepath"
	"sort"
	"strconv"
	"strings"
	"time"

	"github.com/djherbis/atime"
	logging "gopkg.in/op/go-logging.v1"

	"github.com/thought-machine/please/src/cache"
	"github.com/thought-machine/please/src/core"
	"verif/harness/lib"
)

var root string
var caseNo int

type dcache interface {
	Store(*core.BuildTarget, []byte, []string)
	Retrieve(*core.BuildTarget, []byte, []string) bool
	CleanForVerif(uint64, uint64) uint64
	ShouldCleanForVerif(string, bool) bool
	MarkedForVerif() map[string]uint64
	PathsForVerif(*core.BuildTarget, []byte) (string, string)
}

func newCache(dir string, compress bool) dcache { return cache.NewDirCacheForVerif(dir, compress) }

// ---- an independent statement of the rules (from the comments in the source, not from its code)

// looksLikeEntry: a padded base64 sha1 (28) or sha256 (44) key, whose last character is '=', optionally followed by
// one more character (temporaries), plus ".tar.gz" for compressed caches; directories in plain caches, files in
// compressed ones.
func looksLikeEntry(name string, isDir, compress bool) bool {
	if compress {
		if isDir || !strings.HasSuffix(name, ".tar.gz") {
			return false
		}
		name = strings.TrimSuffix(name, ".tar.gz")
	} else if !isDir {
		return false
	}
	for _, n := range []int{28, 44} {
		if (len(name) == n || len(name) == n+1) && name[n-1] == '=' {
			return true
		}
	}
	return false
}

// walkedSize: everything at and below path, as lstat reports it.
func walkedSize(path string) uint64 {
	var t uint64
	filepath.Walk(path, func(_ string, info os.FileInfo, err error) error {
		if err == nil {
			t += uint64(info.Size())
		}
		return nil
	})
	return t
}

type ent struct {
	rel   string
	size  uint64
	atime int64
}

// recognisedEntries lists what the cleaner's walk will treat as entries (not descending into plain-mode entries).
func recognisedEntries(dir string, compress bool) []ent {
	var out []ent
	var walk func(p string)
	walk = func(p string) {
		des, _ := os.ReadDir(p)
		for _, d := range des {
			full := filepath.Join(p, d.Name())
			fi, err := os.Lstat(full)
			if err != nil {
				continue
			}
			isDir := fi.IsDir()
			if looksLikeEntry(d.Name(), isDir, compress) {
				rel, _ := filepath.Rel(dir, full)
				st, _ := os.Stat(full)
				out = append(out, ent{rel, walkedSize(full), atimeOf(st)})
				if !compress {
					continue
				}
			}
			if isDir {
				walk(full)
			}
		}
	}
	walk(dir)
	sort.Slice(out, func(i, j int) bool { return out[i].rel < out[j].rel })
	return out
}

// everything under dir: path -> kind+size (+content hash for files), to see what a pass touched.
func fingerprint(dir string) map[string]string {
	m := map[string]string{}
	filepath.Walk(dir, func(p string, info os.FileInfo, err error) error {
		if err != nil || p == dir {
			return nil
		}
		rel, _ := filepath.Rel(dir, p)
		m[rel] = fmt.Sprintf("%v:%d", info.Mode().Type(), info.Size())
		return nil
	})
	return m
}

func atimeOf(fi os.FileInfo) int64 {
	if fi == nil {
		return 0
	}
	return atime.Get(fi).Unix()
}

func hx(s string) string { return lib.Hex(s) }

func showFound(es []ent) string {
	if len(es) == 0 {
		return "-"
	}
	p := make([]string, len(es))
	for i, e := range es {
		p[i] = fmt.Sprintf("%s:%d:%d", hx(e.rel), e.size, e.atime)
	}
	return strings.Join(p, ",")
}

// ---- layouts

type item struct {
	Pkg, Name string // target directory <pkg>/<name>
	File      string // entry (or decoy) name inside it
	IsDir     bool
	Bytes     int   // content bytes (a directory gets one file of that size, plus maybe a nested key-like directory)
	Atime     int64 // seconds before "now"
	Nested    bool  // plain mode: put a key-like subdirectory inside the entry (must not be cleaned on its own)
	Mark      int   // 0 none, 1 retrieved before, 2 stored before, 3 retrieved after the walk, 4 retrieved in its own test-to-rename window, 5 retrieved while the loop is at its first eviction
	Key       []byte
}

func b64(k []byte) string { return base64.URLEncoding.EncodeToString(k) }

func build(dir string, compress bool, items []item, now time.Time) dcache {
	os.RemoveAll(dir)
	c := newCache(dir, compress)
	for i, it := range items {
		tdir := filepath.Join(dir, it.Pkg, it.Name)
		os.MkdirAll(tdir, 0o775)
		p := filepath.Join(tdir, it.File)
		tg := core.NewBuildTarget(core.ParseBuildLabel("//"+it.Pkg+":"+it.Name, ""))
		if it.Mark == 2 {
			// a real Store of one output file of this size
			out := filepath.Join(root, "plz-out/gen", it.Pkg)
			os.MkdirAll(out, 0o775)
			os.WriteFile(filepath.Join(out, "o"+strconv.Itoa(i)), make([]byte, it.Bytes), 0o644)
			c.Store(tg, it.Key, []string{"o" + strconv.Itoa(i)})
			continue
		}
		if it.IsDir {
			os.MkdirAll(p, 0o775)
			os.WriteFile(filepath.Join(p, "f"), make([]byte, it.Bytes), 0o644)
			if it.Nested {
				os.MkdirAll(filepath.Join(p, b64([]byte("nested-key-nested-ke"))), 0o775)
			}
		} else {
			os.WriteFile(p, make([]byte, it.Bytes), 0o644)
		}
		at := now.Add(-time.Duration(it.Atime) * time.Second)
		os.Chtimes(p, at, at.Add(-48*time.Hour))
		if it.Mark == 1 {
			c.Retrieve(tg, it.Key, nil) // no outputs requested: marks the entry and returns
		}
	}
	return c
}

// runLayout builds the layout, runs one real pass and returns the op line (sp or ex) and the implementation's answer.
func runLayout(r *lib.Run, layLine string, compress bool, items []item, hi, lo uint64, exact bool) (string, string) {
	caseNo++
	dir := filepath.Join(root, fmt.Sprintf("cache%d", caseNo))
	now := time.Now()
	c := build(dir, compress, items, now)
	before := recognisedEntries(dir, compress)
	fpBefore := fingerprint(dir)
	marks := c.MarkedForVerif()
	var ms []string
	marked := map[string]bool{}
	for _, e := range before {
		if sz, ok := marks[filepath.Join(dir, e.rel)]; ok {
			ms = append(ms, fmt.Sprintf("%s:%d", hx(e.rel), sz))
			marked[e.rel] = true
		}
	}
	markS := "-"
	if len(ms) > 0 {
		markS = strings.Join(ms, ",")
	}
	// entries retrieved while the cleaner is suspended between its walk (and sort) and its eviction loop (mark 3), or in
	// the window between the loop's isMarked test of that entry and its rename (mark 4)
	late, window, duringLoop := map[string]bool{}, map[string]bool{}, map[string]bool{}
	loopStarted := false
	var lateS []string
	pathOf := func(it item) string { return filepath.Join(dir, it.Pkg, it.Name, it.File) }
	cache.VerifOpHook = func(o, path string) {
		switch {
		case o == "clean-sorted" && path == dir:
			for _, it := range items {
				if it.Mark == 3 {
					c.Retrieve(core.NewBuildTarget(core.ParseBuildLabel("//"+it.Pkg+":"+it.Name, "")), it.Key, nil)
				}
			}
		case o == "clean-evict":
			rel, _ := filepath.Rel(dir, path)
			for _, it := range items {
				if it.Mark == 4 && pathOf(it) == path {
					c.Retrieve(core.NewBuildTarget(core.ParseBuildLabel("//"+it.Pkg+":"+it.Name, "")), it.Key, nil)
					window[rel] = true
				}
			}
			if !loopStarted {
				// the loop is at its first eviction: this process now retrieves the mark-5 entries.  The one being evicted
				// right now (if it is one of them) is in its own test-to-rename window; all the others are tested later.
				loopStarted = true
				for _, it := range items {
					if it.Mark == 5 {
						c.Retrieve(core.NewBuildTarget(core.ParseBuildLabel("//"+it.Pkg+":"+it.Name, "")), it.Key, nil)
						r5, _ := filepath.Rel(dir, pathOf(it))
						if pathOf(it) == path {
							window[r5] = true
						} else {
							duringLoop[r5] = true
						}
					}
				}
			}
		}
	}
	total := c.CleanForVerif(hi, lo)
	cache.VerifOpHook = nil
	marksAfter := c.MarkedForVerif()
	for _, e := range before {
		if _, ok := marksAfter[filepath.Join(dir, e.rel)]; ok && !marked[e.rel] && !window[e.rel] {
			// marked before its own test: after the walk (mark 3) or while an earlier entry was being evicted (mark 5)
			late[e.rel] = true
			lateS = append(lateS, hx(e.rel))
		}
	}
	lateStr := "-"
	if len(lateS) > 0 {
		lateStr = strings.Join(lateS, ",")
	}
	var winS []string
	for _, e := range before {
		if window[e.rel] {
			winS = append(winS, hx(e.rel))
		}
	}
	winStr := "-"
	if len(winS) > 0 {
		winStr = strings.Join(winS, ",")
	}
	after := recognisedEntries(dir, compress)
	fpAfter := fingerprint(dir)
	left := map[string]bool{}
	for _, e := range after {
		left[e.rel] = true
	}
	var evicted []string
	evSet := map[string]bool{}
	for _, e := range before {
		if !left[e.rel] {
			evicted = append(evicted, hx(e.rel))
			evSet[e.rel] = true
		}
	}
	evS := "-"
	if len(evicted) > 0 {
		evS = strings.Join(evicted, ",")
	}
	mode := "u"
	if compress {
		mode = "c"
	}
	var op, impl string
	if exact {
		op = fmt.Sprintf("ex %s %d %d %s %s %s %s", mode, hi, lo, showFound(before), markS, lateStr, winStr)
		impl = fmt.Sprintf("evicted=%s total=%d", evS, total)
	} else {
		op = fmt.Sprintf("sp %d %d %s %s %s %s %s %d", hi, lo, showFound(before), markS, lateStr, winStr, evS, total)
	}

	// ---- direct oracle on the real outcome
	ok := true
	fail := func(class, detail string) {
		ok = false
		r.OracleFail(class, layLine, detail)
	}
	var walked, unprotBefore, unprotAfter, evSize uint64
	for _, e := range before {
		if marked[e.rel] {
			walked += marks[filepath.Join(dir, e.rel)]
		} else {
			walked += e.size
			unprotBefore += e.size
			if evSet[e.rel] {
				evSize += e.size
			} else if !late[e.rel] && !window[e.rel] {
				unprotAfter += e.size
			}
		}
		if evSet[e.rel] && marked[e.rel] {
			fail("marked-entry-evicted", e.rel)
		}
		if evSet[e.rel] && late[e.rel] && duringLoop[e.rel] {
			fail("entry-marked-after-cleaning-started-evicted", e.rel+" was retrieved by this process while the loop was evicting an earlier entry, and was evicted later in the same pass")
		} else if evSet[e.rel] && late[e.rel] {
			fail("entry-marked-during-pass-evicted", e.rel+" was retrieved after the walk and before the eviction loop, and was evicted")
		}
		if evSet[e.rel] && window[e.rel] {
			// marked (markDir had returned) before the rename, removed all the same: the test and the rename are not atomic
			r.OracleFail("entry-marked-between-test-and-rename-evicted", layLine, e.rel+" was retrieved after the loop's isMarked test and before its rename, and was evicted")
		}
	}
	// whole entries only: everything that disappeared lies at or below an evicted entry, and all of it went;
	// nothing appeared; nothing else changed
	for p, v := range fpBefore {
		under := ""
		for e := range evSet {
			if p == e || strings.HasPrefix(p, e+"/") {
				under = e
			}
		}
		w, still := fpAfter[p]
		switch {
		case under != "" && still:
			fail("entry-partly-removed", p+" survives the eviction of "+under)
		case under == "" && !still:
			fail("non-entry-removed", p)
		case under == "" && w != v && !strings.HasPrefix(v, "d"):
			fail("non-entry-changed", p)
		}
	}
	for p := range fpAfter {
		if _, was := fpBefore[p]; !was {
			fail("leftover-created", p)
		}
	}
	if walked < hi {
		if len(evSet) > 0 {
			fail("evicted-below-high-water-mark", evS)
		}
	} else {
		if total != walked-evSize {
			fail("returned-total-wrong", fmt.Sprintf("returned %d, walked %d, evicted %d", total, walked, evSize))
		}
		if !(total < lo) && unprotAfter > 0 {
			fail("bound-not-met", fmt.Sprintf("total %d >= low %d with %d unprotected bytes left", total, lo, unprotAfter))
		}
	}
	// the property as stated, read literally: unprotected entries below the low-water mark, or none left
	if !(unprotAfter < lo) && unprotAfter > 0 {
		if walked < hi {
			r.OracleFail("no-clean-below-high-water-mark", layLine, fmt.Sprintf("%d unprotected bytes left, low %d, walked total %d < high %d: the pass does not start", unprotAfter, lo, walked, hi))
		} else {
			fail("unprotected-above-low-after-pass", fmt.Sprintf("%d unprotected bytes left, low %d", unprotAfter, lo))
		}
	}
	if !exact {
		impl = "ok"
		if !ok {
			impl = "violated"
		}
	}
	r.Count("layout:" + mode)
	if walked < hi {
		r.Count("pass:below-high")
	} else if total < lo {
		r.Count("pass:stopped-below-low")
	} else {
		r.Count("pass:ran-out-of-candidates")
	}
	if len(marked) > 0 {
		r.Count("layout:has-marked")
	}
	if len(late) > 0 {
		r.Count("layout:has-late-mark")
	}
	if len(window) > 0 {
		r.Count("layout:retrieve-in-evict-window")
	}
	if len(duringLoop) > 0 {
		r.Count("layout:retrieve-during-loop")
	}
	r.Count("evicted:" + strconv.Itoa(min(len(evSet), 6)))
	os.RemoveAll(dir)
	return op, impl
}

// ---- in-flight store vs cleaner

func runInflight(r *lib.Run, op string, compress bool, k int) string {
	caseNo++
	dir := filepath.Join(root, fmt.Sprintf("cache%d", caseNo))
	os.RemoveAll(dir)
	pkg := fmt.Sprintf("fl%d", caseNo)
	out := filepath.Join(root, "plz-out/gen", pkg)
	os.MkdirAll(out, 0o775)
	os.WriteFile(filepath.Join(out, "a"), []byte("hello"), 0o644)
	c := newCache(dir, compress)
	tg := core.NewBuildTarget(core.ParseBuildLabel("//"+pkg+":t", ""))
	key := []byte("12345678901234567890")
	final, tmp := c.PathsForVerif(tg, key)
	n := 0
	reached, resume := make(chan struct{}), make(chan struct{})
	cache.VerifOpHook = func(o, path string) {
		// only the Store's own operations count: not the retrieve's, and not the pause points of the cleaner that runs
		// while the Store is suspended
		if strings.HasPrefix(o, "retr-") || strings.HasPrefix(o, "clean-") || !strings.Contains(path, "/"+pkg+"/") {
			return
		}
		if n == k {
			close(reached)
			<-resume
		}
		n++
	}
	done := make(chan struct{})
	go func() { c.Store(tg, key, []string{"a"}); close(done) }()
	select {
	case <-reached:
	case <-done:
		cache.VerifOpHook = nil
		return "bad-op"
	}
	_, e1 := os.Lstat(tmp)
	c.CleanForVerif(0, 0)
	_, e2 := os.Lstat(tmp)
	close(resume)
	<-done
	cache.VerifOpHook = nil
	_, e3 := os.Lstat(final)
	os.Remove(filepath.Join(out, "a"))
	hit := newCache(dir, compress).Retrieve(tg, key, []string{"a"})
	evicted := e1 == nil && e2 != nil
	if evicted {
		class := "compressed-temp-unprotected-during-store"
		if !compress {
			class = "plain-temp-unprotected-during-store"
		}
		r.OracleFail(class, op,
			fmt.Sprintf("the cleaner removed %s while this process was storing it; entry exists afterwards=%v, later retrieve hit=%v", filepath.Base(tmp), e3 == nil, hit))
	} else if !hit {
		r.OracleFail("store-lost-without-eviction", op, "the store completed but a later retrieve missed")
	}
	r.Count(fmt.Sprintf("inflight:evicted=%v", evicted))
	os.RemoveAll(dir)
	os.RemoveAll(out)
	return fmt.Sprintf("tmp-evicted=%v hit=%v", evicted, hit)
}

// ---- replay

func runOp(r *lib.Run, op string) {
	f := strings.Split(op, " ")
	switch {
	case f[0] == "sc" && len(f) == 4 && (f[1] == "u" || f[1] == "c") && (f[2] == "d" || f[2] == "f"):
		name, okh := tryUnhex(f[3])
		if !okh {
			r.Emit(op, "bad-op", false)
			return
		}
		c := newCache(filepath.Join(root, "sc"), f[1] == "c")
		got := lib.Safely(func() string { return strconv.FormatBool(c.ShouldCleanForVerif(name, f[2] == "d")) })
		if want := looksLikeEntry(name, f[2] == "d", f[1] == "c"); got != strconv.FormatBool(want) {
			r.OracleFail("entry-name-recognition", op, "shouldClean says "+got+", the documented shape says "+strconv.FormatBool(want))
		}
		r.Count("sc:" + got)
		r.Emit(op, got, got == "true")
	case f[0] == "fl" && len(f) == 3 && (f[1] == "u" || f[1] == "c"):
		k, err := strconv.Atoi(f[2])
		if err != nil || k < 0 {
			r.Emit(op, "bad-op", false)
			return
		}
		r.Emit(op, runInflight(r, op, f[1] == "c", k), true)
	case f[0] == "lay" && len(f) == 6 && (f[1] == "u" || f[1] == "c") && (f[4] == "0" || f[4] == "1"):
		hi, e1 := strconv.ParseUint(f[2], 10, 64)
		lo, e2 := strconv.ParseUint(f[3], 10, 64)
		items, ok := parseItems(f[5])
		if e1 != nil || e2 != nil || !ok {
			r.Emit(op, "bad-op", false)
			return
		}
		derived, impl := runLayout(r, op, f[1] == "c", items, hi, lo, f[4] == "1")
		r.Emit(derived, impl, true)
	case (f[0] == "sp" && len(f) == 9) || (f[0] == "ex" && len(f) == 8):
		// a bare outcome line (e.g. from a correspondence replay): the layout is gone, so the data is judged by the
		// independent statement of the rules below
		r.Emit(op, judgeData(f), true)
	default:
		r.Emit(op, "bad-op", false)
	}
}

func showItems(items []item) string {
	p := make([]string, len(items))
	for i, it := range items {
		k := "f"
		if it.IsDir {
			k = "d"
		}
		n := 0
		if it.Nested {
			n = 1
		}
		p[i] = fmt.Sprintf("%s,%s,%s,%s,%d,%d,%d,%d,%s", it.Pkg, it.Name, hx(it.File), k, it.Bytes, it.Atime, n, it.Mark, hx(string(it.Key)))
	}
	return strings.Join(p, ";")
}

func parseItems(s string) ([]item, bool) {
	var out []item
	for _, e := range strings.Split(s, ";") {
		q := strings.Split(e, ",")
		if len(q) != 9 || (q[3] != "d" && q[3] != "f") {
			return nil, false
		}
		file, ok1 := tryUnhex(q[2])
		key, ok2 := tryUnhex(q[8])
		by, e1 := strconv.Atoi(q[4])
		at, e2 := strconv.ParseInt(q[5], 10, 64)
		mk, e3 := strconv.Atoi(q[7])
		if !ok1 || !ok2 || e1 != nil || e2 != nil || e3 != nil || by < 0 || mk < 0 || mk > 5 || file == "" ||
			strings.ContainsAny(q[0]+q[1], "/. ") || q[0] == "" || q[1] == "" || strings.Contains(file, "/") {
			return nil, false
		}
		out = append(out, item{Pkg: q[0], Name: q[1], File: file, IsDir: q[3] == "d", Bytes: by, Atime: at, Nested: q[6] == "1", Mark: mk, Key: []byte(key)})
	}
	return out, len(out) > 0
}

// judgeData answers a bare sp / ex line from its data alone: the rules restated in Go (oldest first for ex).
func judgeData(f []string) string {
	type fe struct {
		p    string
		size uint64
		at   int64
	}
	parseFound := func(s string) ([]fe, bool) {
		if s == "-" {
			return nil, true
		}
		var out []fe
		for _, e := range strings.Split(s, ",") {
			q := strings.Split(e, ":")
			if len(q) != 3 {
				return nil, false
			}
			sz, e1 := strconv.ParseUint(q[1], 10, 64)
			at, e2 := strconv.ParseInt(q[2], 10, 64)
			if e1 != nil || e2 != nil {
				return nil, false
			}
			out = append(out, fe{q[0], sz, at})
		}
		return out, true
	}
	parseMarks := func(s string) (map[string]uint64, bool) {
		m := map[string]uint64{}
		if s == "-" {
			return m, true
		}
		for _, e := range strings.Split(s, ",") {
			q := strings.Split(e, ":")
			if len(q) != 2 {
				return nil, false
			}
			sz, err := strconv.ParseUint(q[1], 10, 64)
			if err != nil {
				return nil, false
			}
			if _, dup := m[q[0]]; !dup {
				m[q[0]] = sz
			}
		}
		return m, true
	}
	parseLate := func(s string) map[string]bool {
		m := map[string]bool{}
		if s != "-" {
			for _, p := range strings.Split(s, ",") {
				m[p] = true
			}
		}
		return m
	}
	if f[0] == "ex" {
		hi, e1 := strconv.ParseUint(f[2], 10, 64)
		lo, e2 := strconv.ParseUint(f[3], 10, 64)
		found, ok1 := parseFound(f[4])
		marks, ok2 := parseMarks(f[5])
		late := parseLate(f[6])
		for p := range parseLate(f[7]) {
			late[p] = true // marked before its rename: protected
		}
		if e1 != nil || e2 != nil || !ok1 || !ok2 || (f[1] != "u" && f[1] != "c") {
			return "bad-op"
		}
		var total uint64
		var cand []fe
		for _, e := range found {
			if sz, ok := marks[e.p]; ok {
				total += sz
			} else {
				total += e.size
				cand = append(cand, e)
			}
		}
		var ev []string
		if total >= hi {
			sort.SliceStable(cand, func(i, j int) bool { return cand[i].at < cand[j].at })
			for _, e := range cand {
				if late[e.p] {
					continue
				}
				ev = append(ev, e.p)
				total -= e.size
				if total < lo {
					break
				}
			}
		}
		sort.Strings(ev)
		es := "-"
		if len(ev) > 0 {
			es = strings.Join(ev, ",")
		}
		return fmt.Sprintf("evicted=%s total=%d", es, total)
	}
	hi, e1 := strconv.ParseUint(f[1], 10, 64)
	lo, e2 := strconv.ParseUint(f[2], 10, 64)
	found, ok1 := parseFound(f[3])
	marks, ok2 := parseMarks(f[4])
	late := parseLate(f[5])
	for p := range parseLate(f[6]) {
		late[p] = true // marked before its rename: protected
	}
	tot, e3 := strconv.ParseUint(f[8], 10, 64)
	if e1 != nil || e2 != nil || e3 != nil || !ok1 || !ok2 {
		return "bad-op"
	}
	var evs []string
	if f[7] != "-" {
		evs = strings.Split(f[7], ",")
	}
	var walked, evSize, candN uint64
	isCand := map[string]uint64{}
	for _, e := range found {
		if sz, ok := marks[e.p]; ok {
			walked += sz
		} else {
			walked += e.size
			if _, dup := isCand[e.p]; !dup {
				isCand[e.p] = e.size
			}
			candN++
		}
	}
	known := map[string]bool{}
	for _, e := range found {
		known[e.p] = true
	}
	for _, p := range evs {
		if !known[p] {
			return "violated-unknown-entry"
		}
	}
	if walked < hi {
		if len(evs) == 0 && tot == walked {
			return "ok"
		}
		return "violated"
	}
	needed := false
	for _, p := range evs {
		sz, ok := isCand[p]
		if !ok || late[p] {
			return "violated"
		}
		evSize += sz
		if tot+sz >= lo {
			needed = true
		}
	}
	all := true
	for p := range isCand {
		in := false
		for _, q := range evs {
			in = in || p == q
		}
		all = all && (in || late[p])
	}
	if tot+evSize == walked && (tot < lo || all) && (hi < lo || len(evs) == 0 || needed) {
		return "ok"
	}
	return "violated"
}

func tryUnhex(s string) (string, bool) {
	defer func() { recover() }()
	return lib.UnHex(s), true
}

func main() {
	r := lib.Start()
	defer r.Finish()
	logging.SetBackend(logging.NewLogBackend(io.Discard, "", 0))
	r.Rule = "sc: name is recognised; sp/ex: a cleaner pass over a generated cache directory; fl: a store suspended at an operation; distinct by op line"
	replay := r.ReplayOps()
	base := os.Getenv("VERIF_SCRATCH")
	if base == "" {
		base = r.OutDir
	}
	root, _ = filepath.Abs(filepath.Join(base, "c14repo"))
	os.RemoveAll(root)
	if err := os.MkdirAll(filepath.Join(root, "plz-out/gen"), 0o775); err != nil {
		panic(err)
	}
	defer os.RemoveAll(root)
	core.RepoRoot = root
	if err := os.Chdir(root); err != nil {
		panic(err)
	}
	if replay != nil {
		for _, op := range replay {
			runOp(r, op)
		}
		return
	}
	generate(r)
}
