package main

import (
	"fmt"
	"strings"

	"verif/harness/lib"
)

var key20 = []byte("12345678901234567890")

func keyN(n int, seed int) []byte {
	b := make([]byte, n)
	for i := range b {
		b[i] = byte(33 + (seed*7+i*13)%90)
	}
	return b
}

// names around the recognised shapes
func nameFuzz() []string {
	k20, k32 := b64(key20), b64(keyN(32, 1))
	var out []string
	for _, k := range []string{k20, k32} {
		out = append(out, k, k+"=", k+"==", k+"x", k[:len(k)-1], k[:len(k)-1]+"x", k[:len(k)-1]+"xx", k[1:], "x"+k,
			strings.Replace(k, "=", "-", 1), k+".tar.gz", k+"=.tar.gz", k+".tar.gz=", k+"==.tar.gz", k+"x.tar.gz",
			k[:len(k)-1]+".tar.gz", k[:len(k)-1]+"x.tar.gz", k+".tar", k+".tar.gz.tar.gz", ".tar.gz"+k, k+".TAR.GZ")
	}
	out = append(out, "", "=", ".tar.gz", "=.tar.gz", strings.Repeat("=", 28), strings.Repeat("=", 29), strings.Repeat("a", 27)+"=",
		strings.Repeat("a", 27)+"=.tar.gz", strings.Repeat("a", 43)+"=", strings.Repeat("é", 13)+"a=", strings.Repeat("a", 26)+"é=")
	return out
}

func generate(r *lib.Run) {
	// 1. name recognition: every fuzzed name, both modes, file and directory
	for _, n := range nameFuzz() {
		for _, m := range []string{"u", "c"} {
			for _, k := range []string{"d", "f"} {
				runOp(r, "sc "+m+" "+k+" "+hx(n))
			}
		}
	}
	for i := 0; i < r.N(200, 4000); i++ {
		// random lengths around the thresholds with '=' at random places
		l := lib.Pick(r.Rng, []int{26, 27, 28, 29, 30, 43, 44, 45, 46, 35, 36, 37, 51, 52, 53})
		b := make([]byte, l)
		for j := range b {
			b[j] = "abcXYZ019-_=."[r.Rng.Intn(13)]
		}
		if r.Rng.Chance(50) && l > 28 {
			b[27] = '='
		}
		if r.Rng.Chance(30) && l > 44 {
			b[43] = '='
		}
		n := string(b)
		if r.Rng.Chance(40) {
			n += ".tar.gz"
		}
		runOp(r, "sc "+lib.Pick(r.Rng, []string{"u", "c"})+" "+lib.Pick(r.Rng, []string{"d", "f"})+" "+hx(n))
	}
	// 2. a store in flight while the cleaner runs, at every operation
	for k := 0; k < 7; k++ {
		runOp(r, fmt.Sprintf("fl c %d", k))
	}
	for k := 0; k < 4; k++ {
		runOp(r, fmt.Sprintf("fl u %d", k))
	}
	// 3. cleaner passes over generated layouts
	for i := 0; i < r.N(160, 2500); i++ {
		compress := r.Rng.Bool()
		exact := compress && r.Rng.Chance(50) // plain mode: the walk itself touches directory access times
		n := 1 + r.Rng.Intn(r.N(6, 9))
		var items []item
		var sum, rec int // rec: bytes the walk is expected to count (recognised entries; retrieved ones count 0)
		for j := 0; j < n; j++ {
			klen := lib.Pick(r.Rng, []int{20, 20, 32})
			k := keyN(klen, i*16+j)
			it := item{Pkg: lib.Pick(r.Rng, []string{"p", "q", "deep"}), Name: lib.Pick(r.Rng, []string{"t", "u"}), Key: k,
				Bytes: lib.Pick(r.Rng, []int{0, 1, 10, 100, 1000, 5000, 20000})}
			name := b64(k)
			kind := r.Rng.Intn(100)
			switch {
			case kind < 60: // a proper entry
			case kind < 70: // leftover temporary of an interrupted store
				name += "="
			case kind < 80: // not an entry: wrong length / padding elsewhere
				name = lib.Pick(r.Rng, []string{name[:len(name)-1], name + "xx", strings.Replace(name, "=", "x", 1), "README"})
			case kind < 90: // right name, wrong kind (file in a plain cache, directory in a compressed one)
				it.IsDir = compress
				if compress {
					name += ".tar.gz"
				}
				it.File = name
				goto placed
			default: // entry of the other mode
				if !compress {
					name += ".tar.gz"
				}
				it.IsDir = !compress
				it.File = name
				goto placed
			}
			if compress {
				name += ".tar.gz"
			}
			it.File, it.IsDir = name, !compress
			if !compress && r.Rng.Chance(15) {
				it.Nested = true
			}
			if kind < 60 {
				switch m := r.Rng.Intn(10); {
				case m < 2:
					it.Mark = 1
				case m < 4:
					it.Mark = 2
				case m < 6:
					it.Mark = 3 // retrieved while the cleaner is between its walk and its loop
				case m < 7:
					it.Mark = 4 // retrieved between the loop's test of this entry and its rename
				case m < 9:
					it.Mark = 5 // retrieved while the loop is evicting its first entry
				}
			}
		placed:
			if exact {
				it.Atime = int64(1000 + 700*(j+1) + r.Rng.Intn(90)) // at least a grace period (600 s) apart
			} else {
				it.Atime = int64(r.Rng.Intn(3000)) // many inside the same grace period
			}
			sum += it.Bytes
			if kind < 70 && it.Mark != 1 { // mark 3 entries are walked with their size
				rec += it.Bytes
				if !compress {
					rec += 4096
				}
			}
			items = append(items, it)
		}
		if exact {
			lib.Shuffle(r.Rng, items)
		}
		// two items may have drawn the same target and key: keep the first
		seen := map[string]bool{}
		var uniq []item
		for _, it := range items {
			id := it.Pkg + "/" + it.Name + "/" + it.File
			if !seen[id] {
				seen[id] = true
				uniq = append(uniq, it)
			}
		}
		// water marks at and around the cache size
		// mostly at or below what the walk will count, so that the pass runs; sometimes just above, sometimes far above
		hi := uint64(lib.Pick(r.Rng, []int{0, 1, rec / 4, rec / 2, rec / 2, rec * 3 / 4, rec, rec, rec + 1, rec + 4096, sum * 2, 1 << 40}))
		lo := uint64(lib.Pick(r.Rng, []int{0, 1, int(hi) / 2, int(hi) / 2, int(hi), rec / 3, rec / 5, 4097}))
		if r.Rng.Chance(90) && lo > hi {
			lo = hi
		}
		mode := "u"
		if compress {
			mode = "c"
		}
		ex := 0
		if exact {
			ex = 1
		}
		runOp(r, fmt.Sprintf("lay %s %d %d %d %s", mode, hi, lo, ex, showItems(uniq)))
	}
	// malformed
	for _, l := range []string{"", "sc", "sc x d 61", "sc u q 61", "sc u d 6", "fl c 7", "fl u 4", "fl z 1", "fl c x", "sp 1 2 3", "ex c 1 1 zz -",
		"sp 10 5 01:5:0 - - - 02 0", "sp 10 5 01:5:0 - - 02 0", "lay u 1 1 0 bad", "lay u 1 1 2 p,t,61,d,1,1,0,0,61", "lay u 1 1 0 p,t,61,d,1,1,0,6,61"} {
		runOp(r, l)
	}
}
