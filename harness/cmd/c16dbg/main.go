// Debug helper for C16: show the effect of every repair on one op line (file given as argument).
package main

import (
	"os"
	"strings"

	"verif/harness/asplib"
)

func main() {
	b, _ := os.ReadFile(os.Args[1])
	asplib.DebugClassify(strings.TrimSpace(strings.Split(string(b), "\n")[0]))
}
