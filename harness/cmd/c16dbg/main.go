// Debug helper for C16: show the effect of every repair on one op line (file given as argument), or with
// "-src FILE" evaluate raw source text with the real interpreter and with python3.
package main

import (
	"os"
	"strings"

	"verif/harness/asplib"
)

func main() {
	if os.Args[1] == "-src" {
		b, _ := os.ReadFile(os.Args[2])
		asplib.DebugSource(string(b))
		return
	}
	b, _ := os.ReadFile(os.Args[1])
	asplib.DebugClassify(strings.TrimSpace(strings.Split(string(b), "\n")[0]))
}
