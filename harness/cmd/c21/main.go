// C21 harness: fs.Globber.Glob (called the way the BUILD language's glob() calls it) on generated directory trees
// created under $VERIF_SCRATCH, against the Lean model (correspondence) and against an independent segment-wise
// reference of the documented semantics (direct oracle).
package main

import (
	"fmt"
	"os"
	"path/filepath"
	"sort"
	"strings"
	"unicode/utf8"

	"github.com/thought-machine/please/src/cli"
	"github.com/thought-machine/please/src/core"
	"github.com/thought-machine/please/src/fs"
	"github.com/thought-machine/please/src/parse"
	"verif/harness/lib"
)

// ---------------------------------------------------------------- trees (same encoding as C22)

type node struct {
	name string
	kind byte // 'd' directory, 'f' regular file, 'l' symlink to a directory, 's' symlink to a regular file
	kids []*node
}

func encTree(kids []*node) string {
	if len(kids) == 0 {
		return "_"
	}
	var toks []string
	var rec func(ns []*node)
	rec = func(ns []*node) {
		for _, n := range ns {
			toks = append(toks, string(n.kind)+lib.Hex(n.name))
			if n.kind == 'd' {
				rec(n.kids)
				toks = append(toks, "^")
			}
		}
	}
	rec(kids)
	return strings.Join(toks, ",")
}

func validEntry(n string) bool {
	return n != "" && n != "." && n != ".." && !strings.ContainsAny(n, "/\x00") && len(n) <= 255 && utf8.ValidString(n)
}

func unhex(s string) (out string, ok bool) {
	defer func() {
		if recover() != nil {
			ok = false
		}
	}()
	out = lib.UnHex(s)
	return out, utf8.ValidString(out) && s == lib.Hex(out)
}

func decTree(s string) ([]*node, bool) {
	if s == "_" {
		return nil, true
	}
	toks := strings.Split(s, ",")
	pos := 0
	ok := true
	var rec func(top bool) []*node
	rec = func(top bool) []*node {
		var out []*node
		for pos < len(toks) {
			t := toks[pos]
			pos++
			if t == "^" {
				if top {
					ok = false
				}
				return out
			}
			if len(t) < 2 || !strings.ContainsRune("dfls", rune(t[0])) {
				ok = false
				return out
			}
			nm, good := unhex(t[1:])
			if !good || !validEntry(nm) {
				ok = false
				return out
			}
			for _, o := range out {
				if o.name == nm {
					ok = false
				}
			}
			n := &node{name: nm, kind: t[0]}
			if n.kind == 'd' {
				n.kids = rec(false)
			}
			out = append(out, n)
		}
		if !top {
			ok = false
		}
		return out
	}
	r := rec(true)
	return r, ok
}

func encList(xs []string) string {
	if len(xs) == 0 {
		return "_"
	}
	p := make([]string, len(xs))
	for i, x := range xs {
		p[i] = lib.Hex(x)
	}
	return strings.Join(p, ";")
}

func decList(s string) ([]string, bool) {
	if s == "_" {
		return nil, true
	}
	var out []string
	for _, p := range strings.Split(s, ";") {
		x, ok := unhex(p)
		if !ok {
			return nil, false
		}
		out = append(out, x)
	}
	return out, true
}

func materialise(dir string, kids []*node, sentinel string) error {
	for _, n := range kids {
		p := filepath.Join(dir, n.name)
		var err error
		switch n.kind {
		case 'd':
			if err = os.Mkdir(p, 0o755); err == nil {
				err = materialise(p, n.kids, sentinel)
			}
		case 'f':
			err = os.WriteFile(p, nil, 0o644)
		case 'l':
			err = os.Symlink(".", p)
		case 's':
			err = os.Symlink(sentinel, p)
		}
		if err != nil {
			return err
		}
	}
	return nil
}

func find(kids []*node, comps []string) (*node, bool) {
	cur := &node{kind: 'd', kids: kids}
	for _, c := range comps {
		if cur.kind != 'd' {
			return nil, false
		}
		var nx *node
		for _, k := range cur.kids {
			if k.name == c {
				nx = k
			}
		}
		if nx == nil {
			return nil, false
		}
		cur = nx
	}
	return cur, true
}

// ---------------------------------------------------------------- the modelled fragment (mirrors Driver/C21.lean)

func plainChar(c rune) bool { return !strings.ContainsRune("*?[]\\{}^$\n\x00", c) }

func plainName(n string) bool {
	for _, c := range n {
		if !plainChar(c) {
			return false
		}
	}
	return validEntry(n)
}

func isAlnum(c rune) bool {
	return (c >= 'a' && c <= 'z') || (c >= 'A' && c <= 'Z') || (c >= '0' && c <= '9')
}

type tok struct {
	kind byte // 'c' literal, '*', '?', '[' class
	c    rune
	neg  bool
	rs   [][2]rune
}

// parseItems parses a pattern (or one segment) of the fragment; ok=false outside it.
func parseItems(p string) ([]tok, bool) {
	rs := []rune(p)
	var out []tok
	for i := 0; i < len(rs); i++ {
		c := rs[i]
		switch {
		case c == '*':
			out = append(out, tok{kind: '*'})
		case c == '?':
			out = append(out, tok{kind: '?'})
		case c == '[':
			t := tok{kind: '['}
			i++
			if i < len(rs) && rs[i] == '^' {
				t.neg = true
				i++
			}
			for {
				if i >= len(rs) {
					return nil, false
				}
				if rs[i] == ']' {
					if len(t.rs) == 0 {
						return nil, false
					}
					break
				}
				if !isAlnum(rs[i]) {
					return nil, false
				}
				if i+2 < len(rs) && rs[i+1] == '-' {
					if !isAlnum(rs[i+2]) || rs[i] > rs[i+2] {
						return nil, false
					}
					t.rs = append(t.rs, [2]rune{rs[i], rs[i+2]})
					i += 3
				} else if i+1 < len(rs) && rs[i+1] == '-' {
					return nil, false
				} else {
					t.rs = append(t.rs, [2]rune{rs[i], rs[i]})
					i++
				}
			}
			out = append(out, t)
		case plainChar(c):
			out = append(out, tok{kind: 'c', c: c})
		default:
			return nil, false
		}
	}
	return out, true
}

// modelledPattern: non-empty handled separately; clean (no empty, "." or ".." segments) and inside the fragment.
func modelledPattern(p string) bool {
	if p == "" {
		return true // the code panics on "", the model answers "error"
	}
	for _, s := range strings.Split(p, "/") {
		if s == "" || s == "." || s == ".." {
			return false
		}
	}
	_, ok := parseItems(p)
	return ok
}

// ---------------------------------------------------------------- reference (independent of the Lean model)

type devs struct {
	hiddenBaseOnly   bool // isHidden looks at the base name only: contents of hidden directories are returned
	qmarkSlash       bool // `?` matches '/' in patterns that contain `**`
	negClassSlash    bool // a negated class matches '/'
	leadingDstarRoot bool // in the root package a leading `**/` needs at least one directory
	rootReturned     bool // the package directory itself ("." with hidden=True) is returned
	plzOutAnyDepth   bool // in the root package any entry *named* plz-out is skipped (a non-directory one cuts its siblings)
}

// Order = priority when several single deviations explain an output equally well: the ones still present in the code
// come first, the ones repaired by fix: commits (qmark, leading `**/`) last, so that those classes are only named when
// nothing else explains the output.
var devNames = []string{"hidden-dir-contents", "negated-class-matches-slash", "package-root-returned", "plz-out-name-any-depth",
	"qmark-matches-slash", "leading-doublestar-root-package"}

func devsOf(mask int) devs {
	return devs{hiddenBaseOnly: mask&1 != 0, negClassSlash: mask&2 != 0, rootReturned: mask&4 != 0, plzOutAnyDepth: mask&8 != 0,
		qmarkSlash: mask&16 != 0, leadingDstarRoot: mask&32 != 0}
}

type seg struct {
	dstar bool
	items []tok
}

func parseSegs(p string) ([]seg, bool) {
	var out []seg
	for _, s := range strings.Split(p, "/") {
		if s == "**" {
			out = append(out, seg{dstar: true})
			continue
		}
		if s == "" || s == "." || s == ".." || strings.Contains(s, "**") {
			return nil, false
		}
		it, ok := parseItems(s)
		if !ok {
			return nil, false
		}
		out = append(out, seg{items: it})
	}
	for i := 1; i < len(out); i++ {
		if out[i].dstar && out[i-1].dstar {
			return nil, false // `**/**`: outside the fragment
		}
	}
	return out, true
}

func hasDstar(segs []seg) bool {
	for _, s := range segs {
		if s.dstar {
			return true
		}
	}
	return false
}

func inClass(t tok, c rune) bool {
	hit := false
	for _, r := range t.rs {
		if c >= r[0] && c <= r[1] {
			hit = true
		}
	}
	return hit != t.neg
}

// matchStr: items of consecutive segments flattened with explicit '/' literals; cross = which item kinds may consume '/'.
func matchItems(items []tok, s []rune, qmarkCross, negCross bool) bool {
	if len(items) == 0 {
		return len(s) == 0
	}
	t := items[0]
	switch t.kind {
	case 'c':
		return len(s) > 0 && s[0] == t.c && matchItems(items[1:], s[1:], qmarkCross, negCross)
	case '?':
		return len(s) > 0 && (s[0] != '/' || qmarkCross) && matchItems(items[1:], s[1:], qmarkCross, negCross)
	case '[':
		return len(s) > 0 && inClass(t, s[0]) && (s[0] != '/' || (negCross && t.neg)) && matchItems(items[1:], s[1:], qmarkCross, negCross)
	default: // '*'
		for i := 0; ; i++ {
			if matchItems(items[1:], s[i:], qmarkCross, negCross) {
				return true
			}
			if i >= len(s) || s[i] == '/' {
				return false
			}
		}
	}
}

// segMatchStr matches segs against the path string s (components joined by '/').  Consecutive non-`**` segments are
// matched as one run so that the two '/'-crossing deviations can be switched on; with both off this is exactly
// component-wise matching.
func segMatchStr(segs []seg, s []rune, d devs, regexMode, top, first bool) bool {
	if len(segs) == 0 {
		return len(s) == 0
	}
	if segs[0].dstar {
		if len(segs) == 1 { // trailing (or lone) `**`: one or more components
			return len(s) > 0
		}
		// zero or more complete components, each followed by '/'
		min := 0
		if first && top && d.leadingDstarRoot {
			min = 1
		}
		n := 0
		for i := 0; ; {
			if n >= min && segMatchStr(segs[1:], s[i:], d, regexMode, top, false) {
				return true
			}
			j := i
			for j < len(s) && s[j] != '/' {
				j++
			}
			if j >= len(s) || j == i {
				return false
			}
			i = j + 1
			n++
		}
	}
	// a maximal run of ordinary segments up to the next `**` (or the end)
	k := 0
	var items []tok
	for k < len(segs) && !segs[k].dstar {
		if k > 0 {
			items = append(items, tok{kind: 'c', c: '/'})
		}
		items = append(items, segs[k].items...)
		k++
	}
	q, nc := d.qmarkSlash && regexMode, d.negClassSlash
	if k == len(segs) {
		return matchItems(items, s, q, nc)
	}
	// run followed by '/' and more segments starting with `**`
	items = append(items, tok{kind: 'c', c: '/'})
	for i := 0; i <= len(s); i++ {
		if i > 0 && s[i-1] == '/' && matchItems(items, s[:i], q, nc) && segMatchStr(segs[k:], s[i:], d, regexMode, top, false) {
			return true
		}
	}
	return false
}

type query struct {
	root       []string
	buildNames []string
	includes   []string
	excludes   []string // user excludes; the BUILD file names are appended like builtins.go does
	hidden     bool
	symlinks   bool
}

func hiddenComp(c string) bool {
	return strings.HasPrefix(c, ".") || (strings.HasPrefix(c, "#") && strings.HasSuffix(c, "#"))
}

func contains(xs []string, x string) bool {
	for _, y := range xs {
		if x == y {
			return true
		}
	}
	return false
}

type pat struct {
	raw  string
	segs []seg
}

// ref: the set of paths (relative to the package) glob must return; ok=false when a pattern is outside the fragment
// the specification is defined on.
func ref(q query, rn *node, d devs) (map[string]bool, bool) {
	var incs, excs []pat
	for _, p := range q.includes {
		s, ok := parseSegs(p)
		if !ok {
			return nil, false
		}
		incs = append(incs, pat{p, s})
	}
	for _, p := range append(append([]string{}, q.excludes...), q.buildNames...) {
		s, ok := parseSegs(p)
		if !ok {
			return nil, false
		}
		excs = append(excs, pat{p, s})
	}
	top := len(q.root) == 0
	matches := func(p pat, rel []string) bool {
		return segMatchStr(p.segs, []rune(strings.Join(rel, "/")), d, hasDstar(p.segs), top, true)
	}
	excluded := func(rel []string) bool {
		for _, e := range excs {
			if len(e.segs) == 1 && segMatchStr(e.segs, []rune(rel[len(rel)-1]), d, hasDstar(e.segs), false, true) {
				return true // no separator: against the file name only
			}
			if matches(e, rel) {
				return true
			}
			lit := strings.Split(e.raw, "/")
			if len(lit) <= len(rel) && strings.Join(rel[:len(lit)], "/") == e.raw {
				return true // names the entry or a directory above it
			}
		}
		return false
	}
	out := map[string]bool{}
	selected := func(rel []string) bool {
		for _, p := range incs {
			if matches(p, rel) {
				return !excluded(rel)
			}
		}
		return false
	}
	var walk func(n *node, rel []string, underHidden bool)
	walk = func(n *node, rel []string, underHidden bool) {
		kids := append([]*node{}, n.kids...)
		sort.Slice(kids, func(i, j int) bool { return kids[i].name < kids[j].name })
		for _, k := range kids {
			kr := append(append([]string{}, rel...), k.name)
			if top && k.name == "plz-out" && (len(rel) == 0 || d.plzOutAnyDepth) {
				if k.kind == 'd' || !d.plzOutAnyDepth {
					continue
				}
				break // deviation: SkipDir for a non-directory drops the remaining siblings
			}
			hid := underHidden
			if !q.hidden && hiddenComp(k.name) {
				if !d.hiddenBaseOnly {
					continue
				}
				hid = true
			}
			if k.kind == 'd' {
				isPkg := false
				for _, c := range k.kids {
					if contains(q.buildNames, c.name) {
						isPkg = true
					}
				}
				if isPkg {
					continue
				}
			}
			visible := !(!q.hidden && hiddenComp(k.name)) // with the deviation only the entry's own name counts
			if visible && (k.kind == 'd' || k.kind == 'f' || q.symlinks) && selected(kr) {
				out[strings.Join(kr, "/")] = true
			}
			_ = hid
			if k.kind == 'd' {
				walk(k, kr, hid)
			}
		}
	}
	walk(rn, nil, false)
	if d.rootReturned && top && q.hidden {
		for _, p := range incs {
			if segMatchStr(p.segs, []rune("."), d, hasDstar(p.segs), false, false) || (len(p.segs) == 1 && p.segs[0].dstar) {
				ex := false
				for _, e := range excs {
					if len(e.segs) == 1 && (e.segs[0].dstar || segMatchStr(e.segs, []rune("."), d, false, false, false)) {
						ex = true
					}
				}
				if !ex {
					out["."] = true
				}
			}
		}
	}
	return out, true
}

func setEq(a map[string]bool, b []string) bool {
	seen := map[string]bool{}
	for _, x := range b {
		if !a[x] {
			return false
		}
		seen[x] = true
	}
	return len(seen) == len(a)
}

func keys(m map[string]bool) []string {
	var out []string
	for k := range m {
		out = append(out, k)
	}
	sort.Strings(out)
	return out
}

// ---------------------------------------------------------------- one case

var (
	scratch  string
	sentinel string
	caseNo   int
	home     string
)

func showNames(xs []string) string {
	xs = append([]string{}, xs...)
	sort.Strings(xs)
	var p []string
	for i, x := range xs {
		if i > 0 && xs[i-1] == x {
			continue // the property is about which entries are returned; duplicates from overlapping includes are dropped
		}
		p = append(p, lib.Hex(x))
	}
	if len(p) == 0 {
		return "_"
	}
	return strings.Join(p, ",")
}

func b01(b bool) string {
	if b {
		return "1"
	}
	return "0"
}

func mkOp(q query, kids []*node) string {
	return strings.Join([]string{"glob", lib.Hex(strings.Join(q.root, "/")), encList(q.buildNames), encList(q.includes),
		encList(q.excludes), b01(q.hidden), b01(q.symlinks), encTree(kids)}, " ")
}

func allNames(kids []*node, f func(string) bool) bool {
	for _, k := range kids {
		if !f(k.name) || !allNames(k.kids, f) {
			return false
		}
	}
	return true
}

func runOp(r *lib.Run, op string) {
	f := strings.Split(op, " ")
	if len(f) >= 4 && f[0] == "globseq" {
		runSeq(r, op, f)
		return
	}
	if len(f) != 8 || f[0] != "glob" || (f[5] != "0" && f[5] != "1") || (f[6] != "0" && f[6] != "1") {
		r.Emit(op, "bad-op", false)
		return
	}
	root, ok1 := unhex(f[1])
	bn, ok2 := decList(f[2])
	inc, ok3 := decList(f[3])
	exc, ok4 := decList(f[4])
	kids, ok5 := decTree(f[7])
	if !(ok1 && ok2 && ok3 && ok4 && ok5) {
		r.Emit(op, "bad-op", false)
		return
	}
	q := query{buildNames: bn, includes: inc, excludes: exc, hidden: f[5] == "1", symlinks: f[6] == "1"}
	if root != "" {
		q.root = strings.Split(root, "/")
	}
	rn, found := find(kids, q.root)
	if !found {
		r.Emit(op, "no-root", false)
		return
	}
	if rn.kind != 'd' {
		r.Emit(op, "root-not-dir", false)
		return
	}
	// the fragment the model covers (same predicate in Driver/C21.lean)
	modelled := allNames(kids, plainName)
	for _, b := range bn {
		modelled = modelled && plainName(b)
	}
	for _, p := range append(append([]string{}, inc...), exc...) {
		modelled = modelled && modelledPattern(p)
	}
	// the real code on a real tree, called like builtins.go:glob does
	caseNo++
	dir := filepath.Join(scratch, fmt.Sprintf("t%d", caseNo))
	if err := os.Mkdir(dir, 0o755); err != nil {
		panic(err)
	}
	if err := materialise(dir, kids, sentinel); err != nil {
		panic(fmt.Sprintf("cannot create tree for %s: %v", op, err))
	}
	if err := os.Chdir(dir); err != nil {
		panic(err)
	}
	var got []string
	failed := false
	func() {
		defer func() {
			if recover() != nil {
				failed = true
			}
		}()
		exclude := append(append([]string{}, exc...), bn...)
		got = fs.NewGlobber(fs.HostFS, bn).Glob(root, inc, exclude, q.hidden, q.symlinks)
	}()
	os.Chdir(home)
	os.RemoveAll(dir)

	out := "error"
	if !failed {
		out = showNames(got)
	}
	// direct oracle
	nontrivial := false
	want, defined := ref(q, rn, devs{})
	switch {
	case !defined:
		r.Count("oracle:pattern-outside-spec-fragment")
	case failed:
		if contains(inc, "") || contains(exc, "") {
			r.Count("oracle:empty-pattern-rejected")
		} else {
			r.OracleFail(classify(q, rn, nil, true), op, "Glob panicked; specified="+fmt.Sprintf("%q", keys(want)))
		}
	case setEq(want, got):
		r.Count("oracle:agree")
		nontrivial = len(want) > 0
	default:
		r.OracleFail(classify(q, rn, got, false), op, fmt.Sprintf("Glob=%q specified=%q", dedup(got), keys(want)))
	}
	if !modelled {
		r.Count("unmodelled")
		out = "unmodelled"
	}
	r.Emit(op, out, nontrivial)
}

func dedup(xs []string) []string {
	m := map[string]bool{}
	for _, x := range xs {
		m[x] = true
	}
	return keys(m)
}

// classify names the root cause: the first (in the fixed order of devNames) member of a smallest set of known
// deviations that reproduces the real output exactly; an output no such set reproduces is `unexplained`, unless the
// pattern goes through the regexp translation with characters it does not escape.
func classify(q query, rn *node, got []string, panicked bool) string {
	if !panicked {
		best, bestN := -1, 99
		for mask := 1; mask < 64; mask++ {
			n := 0
			for b := 0; b < 6; b++ {
				if mask&(1<<b) != 0 {
					n++
				}
			}
			if n >= bestN {
				continue
			}
			if w, ok := ref(q, rn, devsOf(mask)); ok && setEq(w, got) {
				best, bestN = mask, n
			}
		}
		if best >= 0 {
			for b := 0; b < 6; b++ {
				if best&(1<<b) != 0 {
					return devNames[b]
				}
			}
		}
	}
	meta := func(p string) bool { return strings.ContainsAny(p, "()|") }
	rootStr := strings.Join(q.root, "/")
	for _, p := range q.includes {
		if strings.Contains(p, "**") && (meta(p) || meta(rootStr)) {
			return "regex-metacharacters-unescaped"
		}
	}
	for _, p := range q.excludes {
		if strings.Contains(p, "**") && (meta(p) || (strings.Contains(p, "/") && meta(rootStr))) {
			return "regex-metacharacters-unescaped"
		}
	}
	return "unexplained"
}

// ---------------------------------------------------------------- call sequences on one Globber (what one BUILD file does)

type call struct {
	q    query
	root string
}

func encCall(c call) string {
	return strings.Join([]string{lib.Hex(c.root), encList(c.q.includes), encList(c.q.excludes), b01(c.q.hidden), b01(c.q.symlinks)}, "/")
}

func mkSeqOp(bn []string, kids []*node, calls []call) string {
	parts := []string{"globseq", encList(bn), encTree(kids)}
	for _, c := range calls {
		parts = append(parts, encCall(c))
	}
	return strings.Join(parts, " ")
}

var (
	aspState  *core.BuildState
	aspUses   int
)

func quoteAsp(s string) string { // quoteForVerif of src/parse/asp/c16_verif.go
	var b strings.Builder
	b.WriteByte('"')
	for i := 0; i < len(s); i++ {
		switch c := s[i]; {
		case c == '"':
			b.WriteString(`\"`)
		case c == '\\':
			b.WriteString(`\\\\`)
		default:
			b.WriteByte(c)
		}
	}
	b.WriteByte('"')
	return b.String()
}

func pyStrList(xs []string) string {
	p := make([]string, len(xs))
	for i, x := range xs {
		p[i] = quoteAsp(x)
	}
	return "[" + strings.Join(p, ", ") + "]"
}

// aspEval evaluates a BUILD file with one glob() call per element of calls through the real interpreter, in the
// current directory, as package `root`; returns the rendered globals.
func aspEval(root string, bn []string, calls []call) (out string, err error) {
	defer func() {
		if e := recover(); e != nil {
			out, err = "", fmt.Errorf("panic: %v", e)
		}
	}()
	if aspState == nil || aspUses > 300 {
		cli.InitLogging(0)
		aspState = core.NewDefaultBuildState()
		parse.InitParser(aspState)
		aspUses = 0
	}
	aspUses++
	aspState.Config.Parse.BuildFileName = bn
	var src strings.Builder
	for i, c := range calls {
		py := func(b bool) string {
			if b {
				return "True"
			}
			return "False"
		}
		fmt.Fprintf(&src, "r%d = glob(include = %s, exclude = %s, hidden = %s, include_symlinks = %s, allow_empty = True)\n", i,
			pyStrList(c.q.includes), pyStrList(c.q.excludes), py(c.q.hidden), py(c.q.symlinks))
	}
	pkg := core.NewPackage(root)
	pkg.Filename = filepath.Join(root, "BUILD")
	return parse.GetAspParser(aspState).EvalForVerif(pkg, []byte(src.String()), core.ParseModeNormal, false)
}

func runSeq(r *lib.Run, op string, f []string) {
	bn, ok1 := decList(f[1])
	kids, ok2 := decTree(f[2])
	if !ok1 || !ok2 {
		r.Emit(op, "bad-op", false)
		return
	}
	var calls []call
	for _, cs := range f[3:] {
		p := strings.Split(cs, "/")
		if len(p) != 5 || (p[3] != "0" && p[3] != "1") || (p[4] != "0" && p[4] != "1") {
			r.Emit(op, "bad-op", false)
			return
		}
		root, o1 := unhex(p[0])
		inc, o2 := decList(p[1])
		exc, o3 := decList(p[2])
		if !(o1 && o2 && o3) {
			r.Emit(op, "bad-op", false)
			return
		}
		q := query{buildNames: bn, includes: inc, excludes: exc, hidden: p[3] == "1", symlinks: p[4] == "1"}
		if root != "" {
			q.root = strings.Split(root, "/")
		}
		calls = append(calls, call{q, root})
	}
	modelled := allNames(kids, plainName)
	for _, b := range bn {
		modelled = modelled && plainName(b)
	}
	for _, c := range calls {
		for _, p := range append(append([]string{}, c.q.includes...), c.q.excludes...) {
			modelled = modelled && modelledPattern(p)
		}
	}
	caseNo++
	dir := filepath.Join(scratch, fmt.Sprintf("t%d", caseNo))
	if err := os.Mkdir(dir, 0o755); err != nil {
		panic(err)
	}
	if err := materialise(dir, kids, sentinel); err != nil {
		panic(fmt.Sprintf("cannot create tree for %s: %v", op, err))
	}
	if err := os.Chdir(dir); err != nil {
		panic(err)
	}
	defer func() {
		os.Chdir(home)
		os.RemoveAll(dir)
	}()
	glob1 := func(g *fs.Globber, c call) (got []string, failed bool) {
		defer func() {
			if recover() != nil {
				failed = true
			}
		}()
		exclude := append(append([]string{}, c.q.excludes...), bn...)
		return g.Glob(c.root, c.q.includes, exclude, c.q.hidden, c.q.symlinks), false
	}
	shared := fs.NewGlobber(fs.HostFS, bn) // ONE Globber for the whole sequence, like asp's scope.globber
	var outs []string
	var raw [][]string
	anyFailed, sameRoot, nontrivial := false, true, false
	for i, c := range calls {
		if c.root != calls[0].root {
			sameRoot = false
		}
		rn, found := find(kids, c.q.root)
		if !found {
			outs = append(outs, "no-root")
			raw = append(raw, nil)
			anyFailed = true
			continue
		}
		if rn.kind != 'd' {
			outs = append(outs, "root-not-dir")
			raw = append(raw, nil)
			anyFailed = true
			continue
		}
		got, failed := glob1(shared, c)
		raw = append(raw, got)
		if failed {
			outs = append(outs, "error")
			anyFailed = true
		} else {
			outs = append(outs, showNames(got))
		}
		// oracle 1: the walk cache must be transparent -- the same call on a Globber of its own
		alone, failedAlone := glob1(fs.NewGlobber(fs.HostFS, bn), c)
		if failed != failedAlone || (!failed && showNames(got) != showNames(alone)) {
			r.OracleFail("globber-cache-not-transparent", op, fmt.Sprintf("call %d of the sequence returns %q on the shared Globber but %q on a fresh one",
				i+1, dedup(got), dedup(alone)))
		}
		// oracle 2: every call against the reference, as for single calls
		want, defined := ref(c.q, rn, devs{})
		switch {
		case !defined:
			r.Count("oracle:pattern-outside-spec-fragment")
		case failed:
			if !(contains(c.q.includes, "") || contains(c.q.excludes, "")) {
				r.OracleFail(classify(c.q, rn, nil, true), op, fmt.Sprintf("call %d: Glob panicked; specified=%q", i+1, keys(want)))
			}
		case setEq(want, got):
			r.Count("oracle:agree")
			nontrivial = nontrivial || len(want) > 0
		default:
			r.OracleFail(classify(c.q, rn, got, false), op, fmt.Sprintf("call %d: Glob=%q specified=%q", i+1, dedup(got), keys(want)))
		}
	}
	// end to end: the same calls as glob() statements of one BUILD file, through the real interpreter
	if sameRoot && !anyFailed && len(calls) <= 9 {
		r.Count("seq:also-through-asp")
		want := "{"
		for i := range calls {
			if i > 0 {
				want += ","
			}
			q := make([]string, len(raw[i]))
			for j, x := range raw[i] {
				q[j] = quoteAsp(x)
			}
			want += fmt.Sprintf("%s:[%s]", quoteAsp(fmt.Sprintf("r%d", i)), strings.Join(q, ","))
		}
		want += "}"
		if got, err := aspEval(calls[0].root, bn, calls); err != nil {
			r.OracleFail("asp-glob-error", op, "BUILD file with the same glob() calls failed: "+err.Error())
		} else if got != want {
			r.OracleFail("asp-glob-differs-from-globber", op, "interpreter: "+got+" shared Globber: "+want)
		}
	}
	r.Count(fmt.Sprintf("seq:len=%d", len(calls)))
	out := strings.Join(outs, "|")
	if !modelled {
		r.Count("unmodelled")
		out = "unmodelled"
	}
	r.Emit(op, out, nontrivial && len(calls) >= 2)
}

// ---------------------------------------------------------------- generator

var pool = []string{"a.txt", "b.txt", "ab.txt", "a.go", "a_test.go", "x(1).txt", "a+b.txt", "a|b.txt", "x1.txt", "d", "e", "src",
	"lib", ".hid", ".git", ".h.txt", "#x#", "#y", "plz-out", "BUILD", "BUILD.plz", "é.txt", "x y.txt", "q", "sub", "c++",
	"f(1)", "z.py", "Zest.py", "best.py", "test.py", "a", "b", "ab", "a-b", "日本.txt", "README.md", "x.tar.gz"}

type gen struct {
	r     *lib.Run
	dirs  [][]string
	all   [][]string
	bn    []string
	depth int
}

func (g *gen) tree(comps []string, depth int) []*node {
	rng := g.r.Rng
	n := rng.Intn(5)
	if depth == 0 {
		n = 2 + rng.Intn(4)
	}
	used := map[string]bool{}
	var out []*node
	add := func(nd *node) {
		if used[nd.name] {
			return
		}
		used[nd.name] = true
		out = append(out, nd)
		p := append(append([]string{}, comps...), nd.name)
		g.all = append(g.all, p)
		if nd.kind == 'd' {
			g.dirs = append(g.dirs, p)
			nd.kids = g.tree(p, depth+1)
		}
	}
	if depth > 0 && rng.Chance(30) {
		add(&node{name: lib.Pick(rng, g.bn), kind: 'f'})
	}
	for i := 0; i < n; i++ {
		nm := lib.Pick(rng, pool)
		isDirName := !strings.Contains(nm, ".") || strings.HasPrefix(nm, ".") || nm == "c++"
		isBuildName := contains(g.bn, nm) || nm == "BUILD.plz" // never a directory: a directory named like a BUILD file is outside C21
		switch x := rng.Intn(100); {
		case (isDirName && x < 70 || x < 8) && depth < g.depth && !isBuildName:
			add(&node{name: nm, kind: 'd'})
		case x < 92:
			add(&node{name: nm, kind: 'f'})
		case x < 96:
			add(&node{name: nm, kind: 'l'})
		default:
			add(&node{name: nm, kind: 's'})
		}
	}
	return out
}

func (g *gen) mutateComp(c string) string {
	rng := g.r.Rng
	rs := []rune(c)
	switch x := rng.Intn(100); {
	case x < 30:
		return c
	case x < 45:
		return "*"
	case x < 60: // *.ext or prefix*
		if i := strings.LastIndex(c, "."); i > 0 {
			return "*" + c[i:]
		}
		return string(rs[:1]) + "*"
	case x < 72: // one character -> ?
		i := rng.Intn(len(rs))
		return string(rs[:i]) + "?" + string(rs[i+1:])
	case x < 82: // one character -> class
		i := rng.Intn(len(rs))
		cl := lib.Pick(rng, []string{"[a-z]", "[^a-z]", "[a-zA-Z0-9]", "[^0-9]", "[abx]", "[^ab]"})
		return string(rs[:i]) + cl + string(rs[i+1:])
	case x < 90:
		i := rng.Intn(len(rs) + 1)
		return string(rs[:i]) + "*" + string(rs[i:])
	case x < 94:
		return "**" + c // `**` glued to text: outside the specification's fragment
	default:
		return c + "*"
	}
}

func (g *gen) pattern(root []string) string {
	rng := g.r.Rng
	// start from an entry below the root when there is one
	var below [][]string
	for _, p := range g.all {
		if len(p) > len(root) && strings.Join(p[:len(root)], "/") == strings.Join(root, "/") {
			below = append(below, p[len(root):])
		}
	}
	var comps []string
	if len(below) > 0 && rng.Chance(85) {
		comps = append([]string{}, lib.Pick(rng, below)...)
	} else {
		for i := 1 + rng.Intn(3); i > 0; i-- {
			comps = append(comps, lib.Pick(rng, pool))
		}
	}
	for i := range comps {
		comps[i] = g.mutateComp(comps[i])
	}
	// collapse a run of components into `**`, or insert one
	switch x := rng.Intn(100); {
	case x < 25 && len(comps) >= 1:
		i := rng.Intn(len(comps))
		comps = append(append(append([]string{}, comps[:i]...), "**"), comps[i:]...)
	case x < 45 && len(comps) >= 2:
		i := rng.Intn(len(comps) - 1)
		comps = append(append(append([]string{}, comps[:i]...), "**"), comps[len(comps)-1:]...)
	case x < 52:
		comps = append(comps, "**")
	case x < 56:
		comps = []string{"**"}
	}
	p := strings.Join(comps, "/")
	switch x := rng.Intn(100); {
	case x < 2:
		return p + "/"
	case x < 4:
		return "./" + p
	case x < 5:
		return ""
	}
	return p
}

func (g *gen) one() string {
	rng := g.r.Rng
	g.dirs, g.all = nil, nil
	g.bn = []string{"BUILD", "BUILD.plz"}
	if rng.Chance(10) {
		g.bn = []string{"BUILD"}
	}
	kids := g.tree(nil, 0)
	q := query{buildNames: g.bn, hidden: rng.Chance(25), symlinks: !rng.Chance(20)}
	if rng.Chance(55) && len(g.dirs) > 0 {
		q.root = lib.Pick(rng, g.dirs)
		g.r.Count("root:subdir")
	}
	for i := 1 + rng.Intn(2); i > 0; i-- {
		q.includes = append(q.includes, g.pattern(q.root))
	}
	if rng.Chance(40) {
		for i := 1 + rng.Intn(2); i > 0; i-- {
			if rng.Chance(50) {
				q.excludes = append(q.excludes, g.mutateComp(lib.Pick(rng, pool))) // relative: file name only
			} else {
				q.excludes = append(q.excludes, g.pattern(q.root))
			}
		}
		g.r.Count("excludes:non-empty")
	}
	for _, p := range q.includes {
		if strings.Contains(p, "**") {
			g.r.Count("include:doublestar")
			break
		}
	}
	return mkOp(q, kids)
}

// seq: several calls on one tree, mostly in one package, with mixed hidden flags and overlapping patterns
func (g *gen) seq() string {
	rng := g.r.Rng
	g.dirs, g.all = nil, nil
	g.bn = []string{"BUILD", "BUILD.plz"}
	kids := g.tree(nil, 0)
	var root []string
	if rng.Chance(50) && len(g.dirs) > 0 {
		root = lib.Pick(rng, g.dirs)
	}
	n := 2 + rng.Intn(3)
	var calls []call
	var prev []string
	for i := 0; i < n; i++ {
		rt := root
		if rng.Chance(15) && len(g.dirs) > 0 {
			rt = lib.Pick(rng, g.dirs) // another package directory on the same Globber
		}
		q := query{root: rt, buildNames: g.bn, hidden: rng.Chance(50), symlinks: !rng.Chance(20)}
		switch x := rng.Intn(100); {
		case x < 35 && len(prev) > 0:
			q.includes = append([]string{}, prev...) // the same patterns again, typically with the other flag
		case x < 60:
			q.includes = []string{lib.Pick(rng, []string{"*", "**", ".*", "**/.*", "*/*", "**/*"})}
		default:
			for j := 1 + rng.Intn(2); j > 0; j-- {
				q.includes = append(q.includes, g.pattern(rt))
			}
		}
		prev = q.includes
		if rng.Chance(25) {
			q.excludes = []string{g.mutateComp(lib.Pick(rng, pool))}
		}
		calls = append(calls, call{q, strings.Join(rt, "/")})
	}
	return mkSeqOp(g.bn, kids, calls)
}

// exhaustiveSeq: one tree with hidden files and a hidden directory x every pair of (pattern, hidden) calls x two roots
func exhaustiveSeq(r *lib.Run) {
	f := func(n string) *node { return &node{name: n, kind: 'f'} }
	d := func(n string, kids ...*node) *node { return &node{name: n, kind: 'd', kids: kids} }
	kids := []*node{f("BUILD"), f("a.txt"), f(".h.txt"), f("#x#"), d(".hid", f("b.txt")), d("d", f("c.txt"), f(".e")),
		d("pkg", f("BUILD"), f("p.txt"), f(".q"), d("s", f(".t"), f("u.txt")))}
	pats := []string{"*", "**", ".*", "*.txt"}
	for _, root := range []string{"", "pkg"} {
		for _, p1 := range pats {
			for _, p2 := range pats {
				for h := 0; h < 4; h++ {
					var rc []string
					if root != "" {
						rc = []string{root}
					}
					c1 := call{query{root: rc, buildNames: []string{"BUILD"}, includes: []string{p1}, hidden: h&1 != 0, symlinks: true}, root}
					c2 := call{query{root: rc, buildNames: []string{"BUILD"}, includes: []string{p2}, hidden: h&2 != 0, symlinks: true}, root}
					runOp(r, mkSeqOp([]string{"BUILD"}, kids, []call{c1, c2}))
					r.Count("exhaustive-sequences")
				}
			}
		}
	}
}

// exhaustive family: a fixed tree with every interesting kind of entry x a table of patterns x roots x hidden flag
func exhaustive(r *lib.Run) {
	f := func(n string) *node { return &node{name: n, kind: 'f'} }
	d := func(n string, kids ...*node) *node { return &node{name: n, kind: 'd', kids: kids} }
	kids := []*node{
		f("BUILD"), f("a.txt"), f("z.txt"), f(".h.txt"), f("#x#"),
		d(".hid", f("b.txt")),
		d("d", f("x(1).txt"), f("x1.txt"), f("ab.txt"), f("a+b.txt"), d("a", f("b.txt")), d("e", f("y.txt"), f("a+b.txt")), f("#y#")),
		d("sub", f("BUILD"), f("s.txt"), d("A", f("t.txt"))),
		d("plz-out", d("gen", f("g.txt"))),
		d("n", d("plz-out", f("h.txt")), f("k.txt")),
		d("pkg", f("BUILD"), f("p.txt"), d("q", f("r.txt")), d("plz-out", f("z.txt")), d(".hq", f("w.txt")), d("x(1)", f("m.txt"))),
		d("empty"),
		&node{name: "lnk", kind: 'l'}, &node{name: "ls.txt", kind: 's'},
	}
	pats := []string{"*", "**", "*.txt", "**/*.txt", "d/*.txt", "d/**", "d/**/*.txt", "d/**/x(1).txt", "d/x(1).txt", "d/**/a?b.txt",
		"d/a?b.txt", "d/**/a+b.txt", "d/[^a]1.txt", "d[^x]ab.txt", "d/**/[^q]/b.txt", "**/b.txt", "*/*.txt", "?.txt", "**/?.txt", "[a-z].txt",
		"n/**", "q/**/*.txt", "**/q/*.txt", "x(1)/**", "**/m.txt", "*/**/*.txt", "d/**/e/*.txt", "**/plz-out/**", "l*", "**/[a-z]*.txt"}
	excs := [][]string{nil, {"*.txt"}, {"d/e"}, {"**/e/**"}, {"a*"}}
	for _, root := range [][]string{nil, {"pkg"}, {"d"}} {
		for _, p := range pats {
			for _, e := range excs {
				for _, hidden := range []bool{false, true} {
					runOp(r, mkOp(query{root: root, buildNames: []string{"BUILD"}, includes: []string{p}, excludes: e, hidden: hidden, symlinks: true}, kids))
					r.Count("exhaustive-family")
				}
			}
		}
	}
}

func main() {
	r := lib.Start()
	defer r.Finish()
	r.Rule = "the specification selects at least one entry and Glob returns exactly that set; distinct by op line"
	var err error
	home, err = os.Getwd()
	if err != nil {
		panic(err)
	}
	scratch = os.Getenv("VERIF_SCRATCH")
	if scratch == "" {
		scratch = r.OutDir
	}
	scratch, _ = filepath.Abs(filepath.Join(scratch, "c21-trees"))
	if err := os.MkdirAll(scratch, 0o755); err != nil {
		panic(err)
	}
	defer os.RemoveAll(scratch)
	sentinel = filepath.Join(scratch, "sentinel-file")
	if err := os.WriteFile(sentinel, []byte("x"), 0o644); err != nil {
		panic(err)
	}
	if ops := r.ReplayOps(); ops != nil {
		for _, op := range ops {
			runOp(r, op)
		}
		return
	}
	exhaustive(r)
	exhaustiveSeq(r)
	r.Exhaust = true
	g := &gen{r: r, depth: r.N(3, 4)}
	for i := 0; i < r.N(2500, 25000); i++ {
		if i%4 == 3 {
			runOp(r, g.seq())
		} else {
			runOp(r, g.one())
		}
	}
	for _, op := range []string{"glob", "glob - _ _ _ 0 1", "glob - _ _ _ 2 1 _", "glob zz _ 2a _ 0 1 _", "glob - _ 2a _ 0 1 d61", "nonsense"} {
		runOp(r, op)
		r.Count("malformed")
	}
}
