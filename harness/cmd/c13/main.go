// C13 harness: the HTTP and command caches (src/cache/http_cache.go, cmd_cache.go) through cache.NewCache with
// Cache.Workers = 0, against a loopback server that commits a PUT only when its body ended without error, and against
// `sh -c` store / retrieve commands.
//
//	H <outs> <fault>            HTTP: Store, then a later Retrieve into an emptied output directory
//	                            fault: - | s (the server drops the connection while reading the PUT) | r<pct> (the GET body is cut to pct%, 1..75)
//	C <kind> <rfail> <outs>     command cache: n = `cat > $KEY` (the form of the repository's tests), a = `cat > tmp && mv tmp $KEY`,
//	                            nf<bytes> / af<bytes> = the same destinations, but the command stops after <bytes> and exits 1
//	                            (`head -c <bytes> > …; exit 1`); rfail 1 = the retrieve command prints the archive and exits 1
//	outs = output;output;…  output = item,item,… (walk order; the first item is the output itself)
//	item = <o|d|l|v|u>:<hexname>:<size>   o file, d directory, l symlink, v vanished (not there; only as the output itself), u unreadable (mode 000;
//	                            when the harness runs as root the Store runs in a re-executed child with uid nobody)
//
// The line that goes to the Lean side is `h …` (same fields) or `c <n|a> <rfail> <outs> <stored>` where <stored> is what the
// store command left under the key, measured by reading it as a raw tar: - | <complete entries>.<last one cut 0|1>.<end marker 0|1>.
package main

import (
	"bytes"
	"encoding/json"
	"fmt"
	"io"
	"net"
	"net/http"
	"net/http/httptest"
	"os"
	"os/exec"
	"path/filepath"
	"sort"
	"strconv"
	"strings"
	"sync"
	"syscall"
	"time"

	logging "gopkg.in/op/go-logging.v1"

	"github.com/thought-machine/please/src/cache"
	"github.com/thought-machine/please/src/cli"
	"github.com/thought-machine/please/src/core"
	"verif/harness/lib"
)

var key = []byte("12345678901234567890")

const keyHex = "3132333435363738393031323334353637383930"

type item struct {
	Kind byte
	Name string
	Size int
}

func parseOuts(s string) ([][]item, bool) {
	if s == "-" {
		return nil, true
	}
	var outs [][]item
	for _, o := range strings.Split(s, ";") {
		if o == "" {
			return nil, false
		}
		var its []item
		for _, e := range strings.Split(o, ",") {
			q := strings.Split(e, ":")
			if len(q) != 3 || len(q[0]) != 1 || !strings.Contains("odlvu", q[0]) {
				return nil, false
			}
			name, ok := tryUnhex(q[1])
			sz, err := strconv.Atoi(q[2])
			if !ok || err != nil || sz < 0 || name == "" || strings.HasPrefix(name, "/") || strings.Contains(name, "..") || (q[0] == "d" && sz != 0) {
				return nil, false
			}
			if q[0] == "v" && len(its) > 0 {
				return nil, false // inside a directory a missing name is never walked: only an output itself can have vanished
			}
			its = append(its, item{q[0][0], name, sz})
		}
		outs = append(outs, its)
	}
	return outs, true
}

func tryUnhex(s string) (r string, ok bool) {
	defer func() {
		if recover() != nil {
			ok = false
		}
	}()
	return lib.UnHex(s), true
}

func content(it item) []byte { return bytes.Repeat([]byte{it.Name[len(it.Name)-1]}, it.Size) }

func materialise(gen string, outs [][]item) {
	os.RemoveAll(gen)
	os.MkdirAll(gen, 0o775)
	for _, o := range outs {
		for _, it := range o {
			p := filepath.Join(gen, it.Name)
			os.MkdirAll(filepath.Dir(p), 0o775)
			switch it.Kind {
			case 'o':
				os.WriteFile(p, content(it), 0o644)
			case 'u':
				os.WriteFile(p, content(it), 0o644)
				os.Chmod(p, 0)
			case 'd':
				os.MkdirAll(p, 0o775)
			case 'l':
				os.Symlink(strings.Repeat("t", max(it.Size, 1)), p)
			}
		}
	}
}

func roots(outs [][]item) []string {
	var r []string
	for _, o := range outs {
		r = append(r, o[0].Name)
	}
	return r
}

// shortBodyReached: in some output the first faulty item is an unreadable file with content (the HTTP writer goes on to
// the next output after an error, so every output's first fault is reached).
func shortBodyReached(outs [][]item) bool {
	for _, o := range outs {
		for _, it := range o {
			if it.Kind == 'v' || it.Kind == 'u' {
				if it.Kind == 'u' && it.Size > 0 {
					return true
				}
				break
			}
		}
	}
	return false
}

// cutPct parses the retrieve fault r<pct>: 0 when it is not one.
func cutPct(s string) int {
	if !strings.HasPrefix(s, "r") {
		return 0
	}
	p, err := strconv.Atoi(s[1:])
	if err != nil || p < 1 || p > 75 {
		return 0
	}
	return p
}

// cmdKind parses n | a | nf<bytes> | af<bytes>.
func cmdKind(s string) (atomic bool, failAfter int, ok bool) {
	switch {
	case s == "n":
		return false, -1, true
	case s == "a":
		return true, -1, true
	case strings.HasPrefix(s, "nf") || strings.HasPrefix(s, "af"):
		n, err := strconv.Atoi(s[2:])
		if err != nil || n < 0 {
			return false, 0, false
		}
		return s[0] == 'a', n, true
	}
	return false, 0, false
}

func hasKind(outs [][]item, k byte) bool {
	for _, o := range outs {
		for _, it := range o {
			if it.Kind == k {
				return true
			}
		}
	}
	return false
}

// ---- the child that runs one Store as an unprivileged user

type childSpec struct {
	Root, Pkg       string
	Files           []string
	URL, StoreCmd   string
	RetrieveCmd     string
}

// one BuildState for the whole run (building one costs up to half a second); NewCache reads its Config when called
var sharedState *core.BuildState

func newCache(sp childSpec) core.Cache {
	if sharedState == nil {
		cfg := core.DefaultConfiguration()
		cfg.Cache.Dir = ""
		cfg.Cache.Workers = 0
		sharedState = core.NewBuildState(cfg)
	}
	cfg := sharedState.Config
	cfg.Cache.HTTPURL, cfg.Cache.StoreCommand, cfg.Cache.RetrieveCommand = "", "", ""
	if sp.URL != "" {
		cfg.Cache.HTTPURL = cli.URL(sp.URL)
		cfg.Cache.HTTPWriteable = true
		cfg.Cache.HTTPRetry = 0
	} else {
		cfg.Cache.StoreCommand = sp.StoreCmd
		cfg.Cache.RetrieveCommand = sp.RetrieveCmd
	}
	return cache.NewCache(sharedState)
}

func childMain() {
	var sp childSpec
	if err := json.Unmarshal([]byte(os.Getenv("C13_CHILD")), &sp); err != nil {
		panic(err)
	}
	logging.SetBackend(logging.NewLogBackend(io.Discard, "", 0))
	core.RepoRoot = sp.Root
	if err := os.Chdir(sp.Root); err != nil {
		panic(err)
	}
	newCache(sp).Store(core.NewBuildTarget(core.ParseBuildLabel("//"+sp.Pkg+":t", "")), key, sp.Files)
	os.Exit(0)
}

func runStore(sp childSpec, unprivileged bool) error {
	if unprivileged && os.Geteuid() == 0 {
		b, _ := json.Marshal(sp)
		self, _ := os.Executable()
		cmd := exec.Command(self)
		cmd.Env = append(os.Environ(), "C13_CHILD="+string(b), "GOMAXPROCS=2", "HOME=/nonexistent")
		cmd.Dir = sp.Root
		cmd.SysProcAttr = &syscall.SysProcAttr{Credential: &syscall.Credential{Uid: 65534, Gid: 65534}}
		if out, err := cmd.CombinedOutput(); err != nil {
			return fmt.Errorf("unprivileged store child: %v: %s", err, out)
		}
		return nil
	}
	newCache(sp).Store(core.NewBuildTarget(core.ParseBuildLabel("//"+sp.Pkg+":t", "")), key, sp.Files)
	return nil
}

// ---- loopback HTTP cache

type server struct {
	mu       sync.Mutex
	store    map[string][]byte
	dropPut  map[string]bool // drop the connection while reading the PUT of this path
	cutGet   map[string]int  // send only this percentage of the GET body of this path (0 = all)
	srv      *httptest.Server
}

func newServer() *server {
	s := &server{store: map[string][]byte{}, dropPut: map[string]bool{}, cutGet: map[string]int{}}
	s.srv = httptest.NewServer(http.HandlerFunc(func(w http.ResponseWriter, r *http.Request) {
		p := r.URL.Path
		switch r.Method {
		case http.MethodPut:
			s.mu.Lock()
			drop := s.dropPut[p]
			s.mu.Unlock()
			if drop {
				io.CopyN(io.Discard, r.Body, 64)
				if hj, ok := w.(http.Hijacker); ok {
					if c, _, err := hj.Hijack(); err == nil {
						if tc, ok := c.(*net.TCPConn); ok {
							tc.SetLinger(0)
						}
						c.Close()
					}
				}
				return
			}
			b, err := io.ReadAll(r.Body)
			if err != nil {
				w.WriteHeader(http.StatusBadRequest) // incomplete request: nothing is committed
				return
			}
			s.mu.Lock()
			s.store[p] = b
			s.mu.Unlock()
		case http.MethodGet:
			s.mu.Lock()
			b, ok := s.store[p]
			cut := s.cutGet[p]
			s.mu.Unlock()
			if !ok {
				w.WriteHeader(http.StatusNotFound)
				return
			}
			if cut > 0 {
				// promise everything, send at most three quarters (never only the unread tail), then drop the connection
				w.Header().Set("Content-Length", strconv.Itoa(len(b)))
				w.Write(b[:len(b)*cut/100])
				if hj, ok := w.(http.Hijacker); ok {
					if c, buf, err := hj.Hijack(); err == nil {
						buf.Flush()
						c.Close()
					}
				}
				return
			}
			w.Write(b)
		}
	}))
	return s
}

// ---- measuring and judging

// restored lists what a Retrieve put under gen: name -> kind:size
func restored(gen string) map[string]string {
	m := map[string]string{}
	filepath.Walk(gen, func(p string, fi os.FileInfo, err error) error {
		if err != nil || p == gen {
			return nil
		}
		rel, _ := filepath.Rel(gen, p)
		switch {
		case fi.Mode()&os.ModeSymlink != 0:
			m[rel] = "l"
		case fi.IsDir():
			m[rel] = "d"
		default:
			b, _ := os.ReadFile(p)
			m[rel] = "o:" + strconv.Itoa(len(b)) + ":" + string(b[:min(len(b), 1)])
		}
		return nil
	})
	return m
}

func showHit(m map[string]string, outs [][]item) string {
	// parents created on the way to a nested output are not entries of the archive
	isItem := map[string]bool{}
	for _, o := range outs {
		for _, it := range o {
			isItem[it.Name] = true
		}
	}
	var ns []string
	for n := range m {
		if isItem[n] {
			ns = append(ns, lib.Hex(n))
		}
	}
	sort.Strings(ns)
	if len(ns) == 0 {
		return "hit/-"
	}
	return "hit/" + strings.Join(ns, ",")
}

// measure reads what the store command left, block by block as a raw tar: complete entries (PAX / GNU long-name helper
// records are part of the entry they precede), whether the last one is cut, and whether tar's end marker (two zero
// blocks) follows the entries.
func measure(path string) string {
	b, err := os.ReadFile(path)
	if err != nil {
		return "-"
	}
	zero := make([]byte, 512)
	n, off, pendingMeta := 0, 0, false
	for {
		if off+512 > len(b) {
			// what is left is less than a block: part of the end marker (all zero) is not an entry; anything else is a torn header
			if (off < len(b) && !bytes.Equal(b[off:], zero[:len(b)-off])) || pendingMeta {
				return fmt.Sprintf("%d.1.0", n+1)
			}
			return fmt.Sprintf("%d.0.0", n)
		}
		hdr := b[off : off+512]
		if bytes.Equal(hdr, zero) {
			if off+1024 <= len(b) && bytes.Equal(b[off+512:off+1024], zero) {
				return fmt.Sprintf("%d.0.1", n)
			}
			return fmt.Sprintf("%d.0.0", n)
		}
		size, err := strconv.ParseInt(strings.TrimRight(strings.TrimSpace(string(hdr[124:136])), "\x00 "), 8, 64)
		if err != nil {
			return fmt.Sprintf("%d.1.0", n+1)
		}
		next := off + 512 + int((size+511)/512*512)
		if off+512+int(size) > len(b) {
			return fmt.Sprintf("%d.1.0", n+1) // the body is short
		}
		switch hdr[156] {
		case 'x', 'g', 'L', 'K':
			pendingMeta = true
		default:
			pendingMeta = false
			n++
		}
		off = min(next, len(b))
		if next > len(b) {
			// the body is there but its padding is not: the entry counts, nothing can follow
			return fmt.Sprintf("%d.0.0", n)
		}
	}
}

type ctx struct {
	r    *lib.Run
	root string
	srv  *server
	n    int
	// commit-on-success store commands after a read fault: how often the command committed all the same
	atomicFaults, atomicCommits int
	atomicExample               string
}

// judge is the property on the real outcome: after any fault a later Retrieve must not be a hit, unless it restores
// every output completely; without a fault it must restore everything, byte for byte.
func (c *ctx) judge(line string, outs [][]item, fault bool, hit bool, got map[string]string, classIfWrong string) {
	complete := true
	for _, o := range outs {
		for _, it := range o {
			want := ""
			switch it.Kind {
			case 'o', 'u', 'v':
				want = "o:" + strconv.Itoa(it.Size) + ":" + string(content(it)[:min(it.Size, 1)])
			case 'd':
				want = "d"
			case 'l':
				want = "l"
			}
			if got[it.Name] != want {
				complete = false
			}
		}
	}
	switch {
	case hit && !complete && fault:
		c.r.OracleFail(classIfWrong, line, fmt.Sprintf("a later Retrieve is a hit; restored: %v", keys(got)))
	case hit && !complete:
		c.r.OracleFail("hit-with-missing-or-truncated-files-without-any-fault", line, fmt.Sprintf("restored: %v", keys(got)))
	case !hit && !fault:
		c.r.OracleFail("roundtrip-miss-without-any-fault", line, "Store then Retrieve missed")
	}
}

func keys(m map[string]string) []string {
	var k []string
	for n, v := range m {
		k = append(k, n+"="+v)
	}
	sort.Strings(k)
	return k
}

func (c *ctx) runOp(op string) {
	if os.Getenv("C13_TIMING") != "" { // development aid
		t0 := time.Now()
		defer func() {
			if d := time.Since(t0); d > 300*time.Millisecond {
				fmt.Fprintf(os.Stderr, "%6.2fs %s\n", d.Seconds(), op[:min(len(op), 60)])
			}
		}()
	}
	f := strings.Split(op, " ")
	c.n++
	pkg := "p" + strconv.Itoa(c.n)
	gen := filepath.Join(c.root, "plz-out/gen", pkg)
	tg := core.NewBuildTarget(core.ParseBuildLabel("//"+pkg+":t", ""))
	defer func() {
		// mode-000 files do not stop root from cleaning up
		os.RemoveAll(gen)
	}()
	switch {
	case f[0] == "H" && len(f) == 3 && (f[2] == "-" || f[2] == "s" || cutPct(f[2]) > 0):
		outs, ok := parseOuts(f[1])
		if !ok || len(outs) == 0 {
			c.r.Emit(op, "bad-op", false)
			return
		}
		materialise(gen, outs)
		base := c.srv.srv.URL + "/" + pkg
		path := "/" + pkg + "/" + keyHex
		c.srv.mu.Lock()
		c.srv.dropPut[path] = f[2] == "s"
		c.srv.cutGet[path] = cutPct(f[2])
		c.srv.mu.Unlock()
		sp := childSpec{Root: c.root, Pkg: pkg, Files: roots(outs), URL: base}
		if err := runStore(sp, hasKind(outs, 'u')); err != nil {
			fmt.Fprintln(os.Stderr, err)
			os.Exit(4)
		}
		c.srv.mu.Lock()
		_, committed := c.srv.store[path]
		c.srv.mu.Unlock()
		os.RemoveAll(gen)
		os.MkdirAll(gen, 0o775)
		hit := newCache(sp).Retrieve(tg, key, roots(outs))
		got := restored(gen)
		res := "miss"
		if hit {
			res = showHit(got, outs)
		}
		fault := hasKind(outs, 'v') || hasKind(outs, 'u') || f[2] != "-"
		// Root causes.  A read error that leaves NO short body in the stream (a vanished output; an unreadable file of
		// length zero, after which the rest of that output is dropped) gives a well-formed archive, which is committed:
		// the known defect.  Once a short body has been written the stream is damaged and a later hit would be new.
		class := "http-store-commits-after-read-error"
		if shortBodyReached(outs) {
			class = "http-hit-despite-short-body"
		}
		if f[2] == "s" {
			class = "http-store-committed-despite-transport-fault"
		} else if cutPct(f[2]) > 0 {
			class = "hit-after-retrieve-transport-fault"
		}
		c.judge(op, outs, fault, hit, got, class)
		c.r.Count("http:fault=" + f[2][:1])
		c.r.Count("http:later=" + strings.SplitN(res, "/", 2)[0])
		c.r.Emit("h "+f[1]+" "+f[2], fmt.Sprintf("committed=%v later=%s", committed, res), fault)
	case f[0] == "C" && len(f) == 4 && (f[2] == "0" || f[2] == "1"):
		atomic, failAfter, okk := cmdKind(f[1])
		outs, ok := parseOuts(f[3])
		if !ok || !okk || len(outs) == 0 {
			c.r.Emit(op, "bad-op", false)
			return
		}
		materialise(gen, outs)
		sdir := filepath.Join(c.root, "cmdstore", pkg)
		os.MkdirAll(sdir, 0o777)
		os.Chmod(sdir, 0o777)
		reader := "cat"
		if failAfter >= 0 {
			reader = "head -c " + strconv.Itoa(failAfter)
		}
		storeCmd := reader + " > " + sdir + "/$CACHE_KEY"
		if atomic {
			storeCmd = reader + " > " + sdir + "/$CACHE_KEY.tmp && "
			if failAfter >= 0 {
				storeCmd += "false && "
			}
			storeCmd += "mv " + sdir + "/$CACHE_KEY.tmp " + sdir + "/$CACHE_KEY"
		} else if failAfter >= 0 {
			storeCmd += "; exit 1"
		}
		retrCmd := "cat " + sdir + "/$CACHE_KEY"
		if f[2] == "1" {
			retrCmd += "; exit 1"
		}
		sp := childSpec{Root: c.root, Pkg: pkg, Files: roots(outs), StoreCmd: storeCmd, RetrieveCmd: retrCmd}
		if err := runStore(sp, hasKind(outs, 'u')); err != nil {
			fmt.Fprintln(os.Stderr, err)
			os.Exit(4)
		}
		stored := measure(filepath.Join(sdir, keyHex))
		if atomic && failAfter < 0 && (hasKind(outs, 'v') || hasKind(outs, 'u')) {
			c.atomicFaults++
			if stored != "-" {
				c.atomicCommits++
				c.atomicExample = op
			}
		}
		os.RemoveAll(gen)
		os.MkdirAll(gen, 0o775)
		hit := newCache(sp).Retrieve(tg, key, roots(outs))
		got := restored(gen)
		res := "miss"
		if hit {
			res = showHit(got, outs)
		}
		fault := hasKind(outs, 'v') || hasKind(outs, 'u') || f[2] == "1" || failAfter >= 0
		class := "cmd-naive-store-keeps-partial-archive-after-read-error"
		switch {
		case f[2] == "1":
			class = "hit-after-retrieve-command-failure"
		case atomic && failAfter >= 0:
			class = "cmd-atomic-store-committed-although-command-failed"
		case atomic:
			class = "cmd-atomic-store-committed-after-cancel"
		case failAfter >= 0 && !hasKind(outs, 'v') && !hasKind(outs, 'u'):
			class = "cmd-naive-store-keeps-partial-archive-after-command-failure"
		}
		c.judge(op, outs, fault, hit, got, class)
		c.r.Count("cmd:" + f[1][:min(len(f[1]), 2)] + ":stored=" + map[bool]string{true: "nothing", false: "something"}[stored == "-"])
		c.r.Count("cmd:later=" + strings.SplitN(res, "/", 2)[0])
		os.RemoveAll(sdir)
		c.r.Emit("c "+f[1]+" "+f[2]+" "+f[3]+" "+stored, "later="+res, fault)
	case (f[0] == "h" && len(f) == 3) || (f[0] == "c" && len(f) == 5):
		// a derived line replayed on its own (e.g. from a correspondence report): run it again as its H / C form
		if f[0] == "h" {
			c.runOp("H " + f[1] + " " + f[2])
		} else {
			c.runOp("C " + f[1] + " " + f[2] + " " + f[3])
		}
	default:
		c.r.Emit(op, "bad-op", false)
	}
}

func main() {
	if os.Getenv("C13_CHILD") != "" {
		childMain()
		return
	}
	r := lib.Start()
	defer r.Finish()
	if os.Getenv("C13_LOG") != "" { // development aid: see please's own warnings
		logging.SetBackend(logging.NewLogBackend(os.Stderr, "plz: ", 0))
	} else {
		logging.SetBackend(logging.NewLogBackend(io.Discard, "", 0))
	}
	r.Rule = "a Store with a read fault, a transport fault or a failing retrieve command, followed by a Retrieve; distinct by op line"
	replay := r.ReplayOps()
	base := os.Getenv("VERIF_SCRATCH")
	if base == "" {
		base = r.OutDir
	}
	root, _ := filepath.Abs(filepath.Join(base, "c13repo"))
	os.RemoveAll(root)
	if err := os.MkdirAll(filepath.Join(root, "plz-out/gen"), 0o775); err != nil {
		panic(err)
	}
	os.MkdirAll(filepath.Join(root, "cmdstore"), 0o777)
	os.Chmod(filepath.Join(root, "cmdstore"), 0o777)
	defer os.RemoveAll(root)
	core.RepoRoot = root
	if err := os.Chdir(root); err != nil {
		panic(err)
	}
	c := &ctx{r: r, root: root, srv: newServer()}
	defer c.srv.srv.Close()
	defer func() {
		// The known finding is a RACE that the kill wins almost always (2-3 losses in ~50 at load average > 100).  When the
		// command commits after MOST read faults, it is not being killed in time at all any more: a different defect.
		if c.atomicFaults >= 10 && c.atomicCommits*2 > c.atomicFaults {
			c.r.OracleFail("cmd-store-not-cancelled-after-read-error", c.atomicExample,
				fmt.Sprintf("a commit-on-success store command committed after %d of %d read faults", c.atomicCommits, c.atomicFaults))
		}
	}()
	if replay != nil {
		for _, op := range replay {
			c.runOp(op)
		}
		return
	}
	generate(c)
}
