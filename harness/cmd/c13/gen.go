package main

import (
	"fmt"
	"strings"

	"verif/harness/lib"
)

func it(k byte, name string, size int) string { return fmt.Sprintf("%c:%s:%d", k, lib.Hex(name), size) }

func generate(c *ctx) {
	r := c.r
	// 1. exhaustive: three file outputs, each present / vanished / unreadable, at two sizes (the second beyond the pipe
	//    buffer, which decides whether the store command has started consuming when the fault is met).  Unreadable items
	//    need a re-executed unprivileged child each: in the quick tier they are enumerated at the small size only.
	for _, size := range []int{5, 70000} {
		for mask := 0; mask < 27; mask++ {
			var outs []string
			m, hasU := mask, false
			for _, n := range []string{"a", "b", "c"} {
				outs = append(outs, it("ovu"[m%3], n, size))
				hasU = hasU || m%3 == 2
				m /= 3
			}
			if hasU && size > 5 && !r.Thorough() {
				continue
			}
			o := strings.Join(outs, ";")
			c.runOp("H " + o + " -")
			c.runOp("C n 0 " + o)
			if !hasU || r.Thorough() || mask%2 == 0 {
				c.runOp("C a 0 " + o)
			}
		}
	}
	r.Exhaust = r.Thorough()
	// 2. a directory output with a fault inside, empty unreadable files, symlinks, nested output paths
	d := func(mid string) string {
		return strings.Join([]string{it('d', "d", 0), it('o', "d/p", 9), mid, it('o', "d/r", 9)}, ",")
	}
	for _, o := range []string{
		d(it('o', "d/q", 9)), d(it('u', "d/q", 9)), d(it('u', "d/q", 0)), d(it('l', "d/q", 3)),
		it('o', "a", 7) + ";" + d(it('u', "d/q", 9)) + ";" + it('o', "z", 7), it('o', "a", 7) + ";" + it('v', "gone", 3) + ";" + d(it('o', "d/q", 9)),
		it('u', "e", 0), it('u', "e", 0) + ";" + it('o', "z", 7), it('l', "k", 4) + ";" + it('v', "m", 1),
		it('o', "sub/x", 12) + ";" + it('v', "sub/y", 12), it('d', "only", 0), it('o', "big", 300000) + ";" + it('v', "gone", 1),
	} {
		c.runOp("H " + o + " -")
		c.runOp("C n 0 " + o)
		c.runOp("C a 0 " + o)
	}
	// 3. transport faults and failing retrieve commands, with and without read faults
	for _, o := range []string{
		it('o', "a", 5) + ";" + it('o', "b", 5), it('o', "a", 70000) + ";" + it('o', "b", 70000),
		it('o', "a", 5) + ";" + it('v', "b", 5), it('d', "d", 0) + "," + it('o', "d/p", 40000),
	} {
		c.runOp("H " + o + " s")
		// the cut lands in the gzip header / the first tar header (error from tr.Next) / a file body (error from io.Copy)
		for _, pct := range []int{2, 5, 30, 60} {
			c.runOp(fmt.Sprintf("H %s r%d", o, pct))
		}
		c.runOp("C n 1 " + o)
		c.runOp("C a 1 " + o)
	}
	// 3b. the store command fails by itself: after nothing, inside the first header, at entry boundaries, inside a body
	for _, o := range []string{
		it('o', "a", 5) + ";" + it('o', "b", 5) + ";" + it('o', "c", 5),
		it('o', "a", 3000) + ";" + it('o', "b", 3000),
		it('d', "d", 0) + "," + it('o', "d/p", 600) + "," + it('o', "d/q", 600),
	} {
		for _, k := range []int{0, 100, 512, 1024, 1536, 2048, 4096, 4608, 100000} {
			c.runOp(fmt.Sprintf("C nf%d 0 %s", k, o))
			if k == 0 || k == 1024 || k == 100000 {
				c.runOp(fmt.Sprintf("C af%d 0 %s", k, o))
			}
		}
	}
	// 4. random: more outputs, mixed sizes and kinds
	for i := 0; i < r.N(30, 600); i++ {
		n := 1 + r.Rng.Intn(5)
		var outs []string
		for j := 0; j < n; j++ {
			name := string(rune('a'+j)) + lib.Pick(r.Rng, []string{"", "=", " x", ".tar.gz", "é"})
			k := "ooooovvl"[r.Rng.Intn(8)]
			if r.Rng.Chance(r.N(6, 15)) {
				k = 'u'
			}
			size := lib.Pick(r.Rng, []int{0, 1, 5, 511, 512, 513, 4096, 70000, 200000})
			if k == 'l' {
				size = 1 + size%20
			}
			outs = append(outs, it(k, name, size))
		}
		o := strings.Join(outs, ";")
		switch r.Rng.Intn(4) {
		case 0:
			c.runOp("H " + o + " " + lib.Pick(r.Rng, []string{"-", "-", "s", "r3", "r20", "r45", "r70"}))
		case 1:
			c.runOp("C " + lib.Pick(r.Rng, []string{"n", "n", "n", "nf512", "nf1024", "nf3000"}) + " " + lib.Pick(r.Rng, []string{"0", "0", "1"}) + " " + o)
		case 2:
			c.runOp("C a " + lib.Pick(r.Rng, []string{"0", "0", "1"}) + " " + o)
		default:
			c.runOp("H " + o + " -")
		}
	}
	// malformed
	for _, l := range []string{"", "H", "H - -", "H o:61:1 x", "H o:61:1 r0", "H o:61:1 r76", "H o:61:1 r", "C nfx 0 o:61:1", "H q:61:1 -", "H o:6:1 -", "C x 0 o:61:1", "C n 2 o:61:1", "H d:61:5 -", "H o:61:1;; -", "H d:64:0,v:642f71:3 -"} {
		c.runOp(l)
	}
}
