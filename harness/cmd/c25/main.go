// C25 harness: gc.GarbageCollect (dry run, captured output) of the real code on real core.BuildGraph
// objects, against the Lean model (Driver/C25.lean, exact removal lists) and against an independent
// fixpoint computation of what must be kept — the direct oracle.
//
// Op line:
//
//	gc <includeTests 0|1> <filter> <args> <named> <subincs> <names> <files> <nodes> <decl> <res> <flags> <pl> <sibs> <srcs> <data>
//
//	<filter> <args> <named> <subincs>   id lists ("-" = empty): exact labels only
//	<names>   pkg:name per id           (Go side only: rebuilds the graph on replay)
//	<files>   repo-relative paths per file id, in sorted order (Go side only)
//	<nodes>   ids in graph.AllTargets() order
//	<decl>    id:deps;…  DeclaredDependencies() that are targets;  <res>  id:deps;…  Dependencies()
//	<flags>   per id: 1*IsBinary + 2*IsTest + 4*TestOnly + 8*HasAnyLabel(keep labels) + 16*Label.HasParent()
//	<pl>      id of Label.Parent() per id (own id when none; ids >= n for labels that are not targets)
//	<sibs>    id:ids;…  gc_sibling:<name> labels that name a target of the same package, in label order
//	<srcs>    id:fileids;… AllLocalSourcePaths();   <data> id:fileids;… local data files
//
// Output:  <removed target ids in label order> / <file ids proposed for deletion, sorted, repeats kept>
package main

import (
	"fmt"
	"io"
	"os"
	"sort"
	"strings"

	"github.com/thought-machine/please/src/cli"
	"github.com/thought-machine/please/src/core"
	"github.com/thought-machine/please/src/gc"
	"verif/harness/lib"
)

func init() { cli.InitLogging(cli.MinVerbosity) }

const keepLabelName = "keepme"

type tspec struct {
	name                        string // pkg:name
	binary, test, testOnly, lbl bool
	sibNames                    []string // gc_sibling:<name> labels, in order (may name nothing)
	deps                        []int
	requires                    []string
	provides                    map[string][]int
	srcs, data                  []string // file names relative to the package
}

type gspec struct {
	t []tspec
}

type world struct {
	state   *core.BuildState
	graph   *core.BuildGraph
	targets []*core.BuildTarget
	labels  []core.BuildLabel
	idOf    map[core.BuildLabel]int
	n       int
	nodes   []int
	decl    [][]int
	res     [][]int
	flags   []int
	pl      []int
	sibs    [][]int
	files   []string
	fileID  map[string]int
	srcs    [][]int
	data    [][]int

	firstPkg *core.Package // the package that "subincludes" the query's subinclude targets
}

var sharedState *core.BuildState

func splitName(s string) (string, string) {
	i := strings.LastIndex(s, ":")
	return s[:i], s[i+1:]
}

func build(g *gspec) *world {
	if sharedState == nil {
		sharedState = core.NewDefaultBuildState()
	}
	w := &world{state: sharedState, graph: core.NewGraph(), idOf: map[core.BuildLabel]int{}, n: len(g.t), fileID: map[string]int{}}
	sharedState.Graph = w.graph
	pkgs := map[string]*core.Package{}
	var firstPkg *core.Package
	for id, ts := range g.t {
		p, n := splitName(ts.name)
		l := core.NewBuildLabel(p, n)
		t := core.NewBuildTarget(l)
		t.IsBinary = ts.binary || ts.test
		if ts.test {
			t.Test = new(core.TestFields)
		}
		t.TestOnly = ts.testOnly
		if ts.lbl {
			t.AddLabel(keepLabelName)
		}
		for _, s := range ts.sibNames {
			t.AddLabel("gc_sibling:" + s)
		}
		for _, f := range ts.srcs {
			t.AddSource(core.FileLabel{File: f, Package: p})
		}
		for _, f := range ts.data {
			t.AddDatum(core.FileLabel{File: f, Package: p})
		}
		w.graph.AddTarget(t)
		pkg := pkgs[p]
		if pkg == nil {
			pkg = core.NewPackage(p)
			pkgs[p] = pkg
			w.graph.AddPackage(pkg)
			if firstPkg == nil {
				firstPkg = pkg
			}
		}
		pkg.AddTarget(t)
		w.targets = append(w.targets, t)
		w.idOf[l] = id
		w.labels = append(w.labels, l)
		_ = id
	}
	w.firstPkg = firstPkg
	for id, t := range w.targets {
		for _, r := range g.t[id].requires {
			t.AddRequire(r)
		}
		langs := make([]string, 0)
		for lang := range g.t[id].provides {
			langs = append(langs, lang)
		}
		sort.Strings(langs)
		for _, lang := range langs {
			var ls []core.BuildLabel
			for _, p := range g.t[id].provides[lang] {
				ls = append(ls, w.labels[p])
			}
			t.AddProvide(lang, ls)
		}
	}
	for id, t := range w.targets {
		for _, d := range g.t[id].deps {
			if d != id {
				t.AddDependency(w.labels[d])
			}
		}
	}
	for _, t := range w.targets {
		if err := t.ResolveDependencies(w.graph); err != nil {
			panic(err)
		}
	}
	// read back
	for _, t := range w.graph.AllTargets() {
		w.nodes = append(w.nodes, w.idOf[t.Label])
	}
	// file ids in path order
	paths := map[string]bool{}
	for _, t := range w.targets {
		for _, p := range t.AllLocalSourcePaths() {
			paths[p] = true
		}
		for _, d := range t.AllData() {
			if fl, ok := d.(core.FileLabel); ok {
				paths[fl.Paths(w.graph)[0]] = true
			}
		}
	}
	for p := range paths {
		w.files = append(w.files, p)
	}
	sort.Strings(w.files)
	for i, p := range w.files {
		w.fileID[p] = i
	}
	w.decl, w.res, w.sibs = make([][]int, w.n), make([][]int, w.n), make([][]int, w.n)
	w.srcs, w.data = make([][]int, w.n), make([][]int, w.n)
	w.flags, w.pl = make([]int, w.n), make([]int, w.n)
	for id, t := range w.targets {
		for _, l := range t.DeclaredDependencies() {
			if d := w.graph.Target(l); d != nil {
				w.decl[id] = append(w.decl[id], w.idOf[l])
			}
		}
		for _, d := range t.Dependencies() {
			w.res[id] = append(w.res[id], w.idOf[d.Label])
		}
		f := 0
		if t.IsBinary {
			f |= 1
		}
		if t.IsTest() {
			f |= 2
		}
		if t.TestOnly {
			f |= 4
		}
		if t.HasAnyLabel([]string{keepLabelName}) {
			f |= 8
		}
		if t.Label.HasParent() {
			f |= 16
		}
		w.flags[id] = f
		pl := t.Label.Parent()
		pid, ok := w.idOf[pl]
		if !ok {
			pid = len(w.labels)
			w.idOf[pl] = pid
			w.labels = append(w.labels, pl)
		}
		w.pl[id] = pid
		for _, s := range t.PrefixedLabels("gc_sibling:") {
			if t2 := w.graph.Target(core.NewBuildLabel(t.Label.PackageName, s)); t2 != nil {
				w.sibs[id] = append(w.sibs[id], w.idOf[t2.Label])
			}
		}
		for _, p := range t.AllLocalSourcePaths() {
			w.srcs[id] = append(w.srcs[id], w.fileID[p])
		}
		for _, d := range t.AllData() {
			if fl, ok := d.(core.FileLabel); ok {
				w.data[id] = append(w.data[id], w.fileID[fl.Paths(w.graph)[0]])
			}
		}
	}
	return w
}

func adjField(a [][]int) string {
	if len(a) == 0 {
		return "-"
	}
	parts := make([]string, len(a))
	for i, ds := range a {
		parts[i] = fmt.Sprintf("%d:%s", i, lib.Nats(ds))
	}
	return strings.Join(parts, ";")
}

func dash(s string) string {
	if s == "" {
		return "-"
	}
	return s
}

type query struct {
	includeTests                  bool
	filter, args, named, subincs []int
}

func (w *world) opLine(g *gspec, q query) string {
	names := make([]string, len(g.t))
	for i, t := range g.t {
		names[i] = t.name
	}
	it := "0"
	if q.includeTests {
		it = "1"
	}
	return strings.Join([]string{"gc", it, lib.Nats(q.filter), lib.Nats(q.args), lib.Nats(q.named), lib.Nats(q.subincs),
		dash(strings.Join(names, ",")), dash(strings.Join(w.files, ",")), lib.Nats(w.nodes), adjField(w.decl), adjField(w.res),
		lib.Nats(w.flags), lib.Nats(w.pl), adjField(w.sibs), adjField(w.srcs), adjField(w.data)}, " ")
}

// ---------------------------------------------------------------- running the real code

func capture(f func()) string {
	oldOut, oldErr := os.Stdout, os.Stderr
	r, wr, err := os.Pipe()
	if err != nil {
		panic(err)
	}
	null, _ := os.OpenFile(os.DevNull, os.O_WRONLY, 0)
	os.Stdout, os.Stderr = wr, null
	done := make(chan string)
	go func() {
		b, _ := io.ReadAll(r)
		done <- string(b)
	}()
	func() {
		defer func() { os.Stdout, os.Stderr = oldOut, oldErr; wr.Close(); null.Close() }()
		f()
	}()
	out := <-done
	r.Close()
	return out
}

func (w *world) labelsOf(ids []int) []core.BuildLabel {
	var ls []core.BuildLabel
	for _, i := range ids {
		ls = append(ls, w.labels[i])
	}
	return ls
}

func (w *world) runGC(q query) (string, []int, []int) {
	w.state.Graph = w.graph
	if w.firstPkg != nil {
		w.firstPkg.Subincludes = w.labelsOf(q.subincs)
	}
	out := capture(func() {
		gc.GarbageCollect(w.state, w.labelsOf(q.filter), w.labelsOf(q.args), w.labelsOf(q.named), []string{keepLabelName},
			q.includeTests, false, false, true, true, false)
	})
	var ts, fs []int
	for _, line := range strings.Split(out, "\n") {
		line = strings.TrimSpace(line)
		if line == "" {
			continue
		}
		if strings.HasPrefix(line, "//") {
			found := false
			for l, id := range w.idOf {
				if l.String() == line && id < w.n {
					ts = append(ts, id)
					found = true
				}
			}
			if !found {
				return "unparsable:" + line, nil, nil
			}
		} else if id, ok := w.fileID[line]; ok {
			fs = append(fs, id)
		} else {
			return "unparsable:" + line, nil, nil
		}
	}
	return lib.Nats(ts) + " / " + lib.Nats(fs), ts, fs
}

// ---------------------------------------------------------------- reference (the specification, in Go)
//
// Kept roots: non-test binaries (all binaries when tests are included), targets with a kept label, named
// targets, registered subincludes, command-line targets; and, when tests are not included wholesale, every
// test of a kept target (a test one of whose dependencies outside its own rule is kept and not test-only).
// Needed = the least set containing the roots and closed under dependencies (declared and resolved) and under
// the test rule.  No needed target may be proposed for removal, and no file that a needed target uses as a
// source or as data may be proposed for deletion.

func (w *world) has(id, bit int) bool { return w.flags[id]&bit != 0 }

func (w *world) publicDeps(t int, depth int) []int {
	if depth > w.n+1 {
		return nil
	}
	var out []int
	for _, d := range w.decl[t] {
		if w.pl[d] == w.pl[t] {
			out = append(out, w.publicDeps(d, depth+1)...)
		} else {
			out = append(out, d)
		}
	}
	return out
}

func (w *world) closure(k map[int]bool) {
	for changed := true; changed; {
		changed = false
		for a := 0; a < w.n; a++ {
			if !k[a] {
				continue
			}
			for _, b := range append(append([]int{}, w.decl[a]...), w.res[a]...) {
				if !k[b] {
					k[b] = true
					changed = true
				}
			}
		}
	}
}

func (w *world) roots(q query) map[int]bool {
	k := map[int]bool{}
	for t := 0; t < w.n; t++ {
		if (w.has(t, 1) && (!w.has(t, 2) || q.includeTests)) || w.has(t, 8) {
			k[t] = true
		}
	}
	for _, l := range [][]int{q.named, q.args, q.subincs} {
		for _, t := range l {
			k[t] = true
		}
	}
	return k
}

// needed: the least fixpoint.
func (w *world) needed(q query) map[int]bool {
	k := w.roots(q)
	w.closure(k)
	if q.includeTests {
		return k
	}
	for changed := true; changed; {
		changed = false
		for t := 0; t < w.n; t++ {
			if !w.has(t, 2) || k[t] {
				continue
			}
			for _, d := range w.publicDeps(t, 0) {
				if k[d] && !w.has(d, 4) {
					k[t] = true
					changed = true
				}
			}
		}
		w.closure(k)
	}
	return k
}

// neededOnePass: the same rules, but tests are examined once, in label order (what a single loop over
// AllTargets decides).  Only used to name the root cause of a failure.
func (w *world) neededOnePass(q query) map[int]bool {
	k := w.roots(q)
	w.closure(k)
	if q.includeTests {
		return k
	}
	for _, t := range w.nodes {
		if !w.has(t, 2) {
			continue
		}
		for _, d := range w.publicDeps(t, 0) {
			if k[d] && !w.has(d, 4) {
				k[t] = true
				w.closure(k)
			} else if w.has(d, 4) {
				k[d] = true
				w.closure(k)
			}
		}
	}
	return k
}

func (w *world) acyclic() bool {
	state := make([]int, w.n)
	var visit func(int) bool
	visit = func(a int) bool {
		if state[a] == 1 {
			return false
		}
		if state[a] == 2 {
			return true
		}
		state[a] = 1
		for _, b := range append(append([]int{}, w.decl[a]...), w.res[a]...) {
			if !visit(b) {
				return false
			}
		}
		state[a] = 2
		return true
	}
	for a := 0; a < w.n; a++ {
		if !visit(a) {
			return false
		}
	}
	return true
}

func runQuery(r *lib.Run, g *gspec, w *world, q query, tag string) {
	op := w.opLine(g, q)
	var ts, fs []int
	res := lib.Safely(func() string { s, a, b := w.runGC(q); ts, fs = a, b; return s })
	if res == "panic" || strings.HasPrefix(res, "unparsable") {
		r.OracleFail("gc-crashes", op, res)
		r.Emit(op, res, false)
		return
	}
	k := w.needed(q)
	var k1 map[int]bool
	onePass := func() map[int]bool {
		if k1 == nil {
			k1 = w.neededOnePass(q)
		}
		return k1
	}
	removed := map[int]bool{}
	for _, t := range ts {
		removed[t] = true
	}
	for _, t := range ts {
		if !k[t] {
			continue
		}
		cls := "gc-removes-needed-other"
		switch {
		case !onePass()[t]:
			cls = "gc-test-of-later-kept-target" // the single test pass never kept it
		case len(w.sibs[t]) > 0 && w.sibs[t][0] != t:
			cls = "gc-sibling-overrides-keep" // kept, but its gc_sibling decides
		}
		r.OracleFail(cls, op, fmt.Sprintf("target %d (%s) is needed by a kept root but is proposed for removal; output: %s", t, w.labels[t], res))
	}
	// removing a rule removes its hidden sub-targets with it
	for c := 0; c < w.n; c++ {
		if k[c] && w.has(c, 16) && w.pl[c] < w.n && removed[w.pl[c]] && !removed[c] {
			cls := "gc-rule-of-needed-subtarget-removed"
			if p := w.pl[c]; !onePass()[c] {
				cls = "gc-test-of-later-kept-target"
			} else if onePass()[p] && len(w.sibs[p]) > 0 && w.sibs[p][0] != p {
				cls = "gc-sibling-overrides-keep" // the rule itself is kept, but its gc_sibling decides
			}
			r.OracleFail(cls, op, fmt.Sprintf("hidden sub-target %d (%s) is needed, but its rule %s is proposed for removal; output: %s", c, w.labels[c], w.labels[w.pl[c]], res))
		}
	}
	for _, f := range fs {
		for t := 0; t < w.n; t++ {
			if !k[t] {
				continue
			}
			asSrc, asDatum := false, false
			for _, x := range w.srcs[t] {
				if x == f {
					asSrc = true
				}
			}
			for _, x := range w.data[t] {
				if x == f {
					asDatum = true
				}
			}
			if !asSrc && !asDatum {
				continue
			}
			asData := asDatum && !asSrc
			cls := "gc-deletes-source-of-needed-target"
			switch {
			case !onePass()[t]:
				cls = "gc-test-of-later-kept-target"
			case asData:
				cls = "gc-data-file-not-kept"
			}
			r.OracleFail(cls, op, fmt.Sprintf("file %d (%s) is used by needed target %d (%s) but is proposed for deletion; output: %s", f, w.files[f], t, w.labels[t], res))
		}
	}
	r.Count(tag)
	if len(ts) > 0 {
		r.Count("removes-something")
	}
	if len(fs) > 0 {
		r.Count("deletes-files")
	}
	r.Emit(op, res, len(ts) > 0 && len(k) > 0)
}

// ---------------------------------------------------------------- replay

func parseList(s string) ([]int, bool) {
	if s == "-" {
		return nil, true
	}
	var out []int
	for _, p := range strings.Split(s, ",") {
		if p == "" || len(p) > 6 {
			return nil, false
		}
		n := 0
		for _, c := range p {
			if c < '0' || c > '9' {
				return nil, false
			}
			n = n*10 + int(c-'0')
		}
		out = append(out, n)
	}
	return out, true
}

func parseAdj(s string, n, bound int) ([][]int, bool) {
	out := make([][]int, n)
	got := map[int]bool{}
	if s != "-" {
		for _, e := range strings.Split(s, ";") {
			kv := strings.Split(e, ":")
			if len(kv) != 2 {
				return nil, false
			}
			k, ok := parseList(kv[0])
			ds, ok2 := parseList(kv[1])
			if !ok || !ok2 || len(k) != 1 || k[0] >= n || got[k[0]] {
				return nil, false
			}
			for _, d := range ds {
				if d >= bound {
					return nil, false
				}
			}
			got[k[0]] = true
			out[k[0]] = ds
		}
	}
	return out, len(got) == n
}

func replayOp(r *lib.Run, op string) {
	f := strings.Split(op, " ")
	bad := func() { r.Emit(op, "bad-op", false) }
	if len(f) != 16 || f[0] != "gc" || (f[1] != "0" && f[1] != "1") {
		bad()
		return
	}
	var q query
	q.includeTests = f[1] == "1"
	var ok [4]bool
	q.filter, ok[0] = parseList(f[2])
	q.args, ok[1] = parseList(f[3])
	q.named, ok[2] = parseList(f[4])
	q.subincs, ok[3] = parseList(f[5])
	if !(ok[0] && ok[1] && ok[2] && ok[3]) {
		bad()
		return
	}
	var names, files []string
	if f[6] != "-" {
		names = strings.Split(f[6], ",")
	}
	if f[7] != "-" {
		files = strings.Split(f[7], ",")
	}
	n, nf := len(names), len(files)
	nodes, ok1 := parseList(f[8])
	flags, ok2 := parseList(f[11])
	pl, ok3 := parseList(f[12])
	decl, ok4 := parseAdj(f[9], n, n)
	_, ok5 := parseAdj(f[10], n, n)
	sibs, ok6 := parseAdj(f[13], n, n)
	srcs, ok7 := parseAdj(f[14], n, nf)
	data, ok8 := parseAdj(f[15], n, nf)
	if !(ok1 && ok2 && ok3 && ok4 && ok5 && ok6 && ok7 && ok8) || len(nodes) != n || len(flags) != n || len(pl) != n {
		bad()
		return
	}
	cnt := map[int]int{}
	for _, x := range nodes {
		cnt[x]++
	}
	for i := 0; i < n; i++ {
		if cnt[i] != 1 || flags[i] >= 32 {
			bad()
			return
		}
	}
	for _, l := range [][]int{q.filter, q.args, q.named, q.subincs} {
		for _, x := range l {
			if x >= n {
				bad()
				return
			}
		}
	}
	// rebuild from the names / files (Go-side fields); anything inconsistent there is skipped without a model line
	g := &gspec{}
	seen := map[string]bool{}
	for id, nm := range names {
		i := strings.LastIndex(nm, ":")
		if i <= 0 || i == len(nm)-1 || seen[nm] {
			r.Count("replay-skipped:unusable-names")
			return
		}
		seen[nm] = true
		pkg := nm[:i]
		ts := tspec{name: nm, binary: flags[id]&1 != 0, test: flags[id]&2 != 0, testOnly: flags[id]&4 != 0, lbl: flags[id]&8 != 0, deps: decl[id]}
		for _, s := range sibs[id] {
			sp, sn := splitName(names[s])
			if sp != pkg {
				r.Count("replay-skipped:sibling-in-other-package")
				return
			}
			ts.sibNames = append(ts.sibNames, sn)
		}
		rel := func(fid int) (string, bool) {
			p := files[fid]
			if !strings.HasPrefix(p, pkg+"/") {
				return "", false
			}
			return p[len(pkg)+1:], true
		}
		for _, s := range srcs[id] {
			x, ok := rel(s)
			if !ok {
				r.Count("replay-skipped:file-outside-package")
				return
			}
			ts.srcs = append(ts.srcs, x)
		}
		for _, s := range data[id] {
			x, ok := rel(s)
			if !ok {
				r.Count("replay-skipped:file-outside-package")
				return
			}
			ts.data = append(ts.data, x)
		}
		g.t = append(g.t, ts)
	}
	w := build(g)
	runQuery(r, g, w, q, "replay")
}

// ---------------------------------------------------------------- generators

func randomGraph(r *lib.Run, maxRules int) (*gspec, string) {
	g := r.Rng
	pkgs := []string{"p", "p/q", "lib"}
	gs := &gspec{}
	type rule struct {
		id   int
		pkg  string
		base string
		kids []int
	}
	var rules []rule
	used := map[string]bool{}
	add := func(ts tspec) int {
		if used[ts.name] {
			return -1
		}
		used[ts.name] = true
		gs.t = append(gs.t, ts)
		return len(gs.t) - 1
	}
	nr := 2 + g.Intn(maxRules)
	hiddenShare := g.Intn(3)
	fileShare := g.Intn(3) // 0: no files
	pickFiles := func(pkg string, k int) []string {
		var out []string
		for i := 0; i < k; i++ {
			out = append(out, fmt.Sprintf("f%d.go", g.Intn(4)))
		}
		return out
	}
	for i := 0; i < nr; i++ {
		pkg := lib.Pick(g, pkgs)
		base := fmt.Sprintf("%c%d", "rRx"[g.Intn(3)], i)
		ts := tspec{name: pkg + ":" + base}
		switch g.Intn(10) {
		case 0, 1:
			ts.binary = true
		case 2, 3, 4:
			ts.test = true
		case 5:
			ts.testOnly = true
		}
		if g.Chance(6) {
			ts.lbl = true
		}
		if fileShare > 0 {
			ts.srcs = pickFiles(pkg, g.Intn(3))
			if g.Chance(30) {
				ts.data = pickFiles(pkg, 1+g.Intn(2))
			}
		}
		id := add(ts)
		ru := rule{id: id, pkg: pkg, base: base}
		if hiddenShare > 0 {
			for k := 0; k < g.Intn(hiddenShare+1); k++ {
				c := tspec{name: fmt.Sprintf("%s:_%s#t%d", pkg, base, k), testOnly: ts.testOnly && g.Chance(50)}
				if fileShare > 0 && g.Chance(50) {
					c.srcs = pickFiles(pkg, 1)
				}
				if cid := add(c); cid >= 0 {
					ru.kids = append(ru.kids, cid)
				}
			}
		}
		rules = append(rules, ru)
	}
	n := len(gs.t)
	// gc_sibling labels: same package, mostly existing names
	if g.Chance(35) {
		for k := 0; k < 1+g.Intn(2); k++ {
			a := g.Intn(n)
			pa, _ := splitName(gs.t[a].name)
			var cands []string
			for _, t := range gs.t {
				if p, nm := splitName(t.name); p == pa {
					cands = append(cands, nm)
				}
			}
			nm := lib.Pick(g, cands)
			if g.Chance(10) {
				nm = "nosuch"
			}
			gs.t[a].sibNames = append(gs.t[a].sibNames, nm)
		}
	}
	topo := make([]int, n)
	for i := range topo {
		topo[i] = i
	}
	lib.Shuffle(g, topo)
	pos := make([]int, n)
	for i, x := range topo {
		pos[x] = i
	}
	// rules come before their hidden children in the topological order
	for _, ru := range rules {
		for _, c := range ru.kids {
			if pos[c] < pos[ru.id] {
				pi, pc := pos[ru.id], pos[c]
				topo[pi], topo[pc] = c, ru.id
				pos[ru.id], pos[c] = pc, pi
			}
		}
	}
	edge := func(a, b int) {
		if a == b {
			return
		}
		if pos[a] > pos[b] {
			a, b = b, a
		}
		gs.t[a].deps = append(gs.t[a].deps, b)
	}
	for _, ru := range rules {
		for _, c := range ru.kids {
			if g.Chance(90) {
				edge(ru.id, c)
			}
			for _, c2 := range ru.kids {
				if c != c2 && g.Chance(25) {
					edge(c, c2)
				}
			}
		}
	}
	p := []int{8, 15, 25}[g.Intn(3)]
	for a := 0; a < n; a++ {
		for b := 0; b < n; b++ {
			if pos[a] < pos[b] && g.Chance(p) {
				edge(a, b)
			}
		}
	}
	tag := "random"
	if g.Chance(12) && n >= 3 {
		a, b, c := g.Intn(n), g.Intn(n), g.Intn(n)
		if a != b && b != c && a != c && pos[a] < pos[b] && pos[a] < pos[c] {
			gs.t[a].requires = []string{"go"}
			gs.t[b].provides = map[string][]int{"go": {c}}
			gs.t[a].deps = append(gs.t[a].deps, b)
			tag += "+provide"
		}
	}
	return gs, tag
}

func randomQuery(r *lib.Run, n int) query {
	g := r.Rng
	q := query{includeTests: g.Chance(30)}
	pick := func(p int) []int {
		var out []int
		if g.Chance(p) {
			for k := 0; k < 1+g.Intn(2); k++ {
				out = append(out, g.Intn(n))
			}
		}
		return out
	}
	q.filter, q.args, q.named, q.subincs = pick(12), pick(20), pick(20), pick(10)
	return q
}

// motif plants the shapes on which the keep logic is delicate.
func motif(r *lib.Run) (*gspec, []query, string) {
	g := r.Rng
	gs := &gspec{}
	add := func(ts tspec) int { gs.t = append(gs.t, ts); return len(gs.t) - 1 }
	tag := ""
	var qs []query
	switch g.Intn(5) {
	case 0: // a kept target labelled as the gc sibling of an unused one
		tag = "motif-sibling"
		b := add(tspec{name: "p:bin", binary: true})
		l := add(tspec{name: "p:lib", sibNames: []string{"unused"}, srcs: []string{"lib.go"}})
		add(tspec{name: "p:unused"})
		gs.t[b].deps = []int{l}
	case 1: // tests of targets that are kept only because of a later test
		tag = "motif-test-order"
		k := add(tspec{name: "p:bin", binary: true})
		lib1 := add(tspec{name: "p:lib1"})
		kl := add(tspec{name: "p:klib"})
		gs.t[k].deps = []int{kl}
		t2 := add(tspec{name: "p:a_test", test: true, srcs: []string{"a_test.go"}}) // sorts before z_test
		t3 := add(tspec{name: "p:z_test", test: true})
		gs.t[t2].deps = []int{lib1}
		gs.t[t3].deps = []int{lib1, kl}
		if g.Bool() { // the other order: no problem
			gs.t[t2].name, gs.t[t3].name = "p:z2_test", "p:a3_test"
		}
	case 2: // a kept target uses a hidden sub-target of a rule nobody needs
		tag = "motif-subtarget-of-unused-rule"
		b := add(tspec{name: "p:bin", binary: true})
		ru := add(tspec{name: "p:gen"})
		c := add(tspec{name: "p:_gen#out"})
		gs.t[ru].deps = []int{c}
		gs.t[b].deps = []int{c}
	case 3: // a data file of a kept target is a source of a removed one
		tag = "motif-data-file"
		b := add(tspec{name: "p:bin", binary: true, data: []string{"shared.txt"}, srcs: []string{"main.go"}})
		add(tspec{name: "p:old", srcs: []string{"shared.txt", "old.go"}})
		_ = b
	default: // test-only helpers and hidden test libraries
		tag = "motif-test-helpers"
		k := add(tspec{name: "p:bin", binary: true})
		l := add(tspec{name: "p:lib"})
		gs.t[k].deps = []int{l}
		th := add(tspec{name: "p:testlib", testOnly: true, srcs: []string{"testlib.go"}})
		t := add(tspec{name: "p:lib_test", test: true})
		tl := add(tspec{name: "p:_lib_test#lib", srcs: []string{"lib_test.go"}})
		gs.t[t].deps = []int{tl}
		gs.t[tl].deps = []int{l, th}
		add(tspec{name: "p:orphan_test", test: true, deps: nil})
	}
	// decoration
	base := len(gs.t)
	for i := 0; i < g.Intn(3); i++ {
		x := add(tspec{name: fmt.Sprintf("q:e%d", i), srcs: []string{fmt.Sprintf("e%d.go", i)}})
		for t := 0; t < base; t++ {
			if g.Chance(15) {
				gs.t[x].deps = append(gs.t[x].deps, t)
			}
		}
	}
	qs = append(qs, query{}, query{includeTests: true})
	if g.Chance(30) {
		qs = append(qs, randomQuery(r, len(gs.t)))
	}
	return gs, qs, tag
}

func main() {
	r := lib.Start()
	defer r.Finish()
	r.Rule = "something is proposed for removal and something must be kept; distinct by op line"
	if ops := r.ReplayOps(); ops != nil {
		for _, op := range ops {
			replayOp(r, op)
		}
		return
	}
	for i := 0; i < r.N(6000, 80000); i++ {
		gs, tag := randomGraph(r, []int{3, 5, 8}[i%3])
		w := build(gs)
		if !w.acyclic() {
			r.Count("skipped-cyclic")
			continue
		}
		r.Count(tag)
		r.Count(fmt.Sprintf("n=%02d", min(w.n, 30)))
		for k := 0; k < 3; k++ {
			runQuery(r, gs, w, randomQuery(r, w.n), "random-query")
		}
	}
	for i := 0; i < r.N(1500, 20000); i++ {
		gs, qs, tag := motif(r)
		w := build(gs)
		r.Count(tag)
		for _, q := range qs {
			runQuery(r, gs, w, q, "motif-query")
		}
	}
	for _, op := range []string{"gc", "gc 2 - - - - p:a - 0 0:- 0:- 0 0 0:- 0:- 0:-", "gc 0 1 - - - p:a - 0 0:- 0:- 0 0 0:- 0:- 0:-",
		"gc 0 - - - - p:a - 0 0:1 0:- 0 0 0:- 0:- 0:-", "gc 0 - - - - p:a - 0 0:- 0:- 32 0 0:- 0:- 0:-", "gc 0 - - - - p:a - 0 0:- 0:- 0 0 0:- 0:0 0:-",
		"gc 0 - - - - p:a - 0,0 0:- 0:- 0 0 0:- 0:- 0:-"} {
		replayOp(r, op)
	}
}
