// C19 harness: the real asp lexer / parser (through src/parse/asp/c19_verif.go) against the Lean model
// (Driver/C19.lean), plus the direct oracle "parsing ends with ok or a positioned error, in time".
//
// ops:
//
//	lex <hex>                  token stream of the real lexer, as the parser would drive it
//	parse <hex>                outcome class of Parser.ParseData
//	stress <unit-hex> <count> <mb>  ParseData on unit^count in a child process (a Go stack overflow is fatal and
//	                                cannot be recovered); mb = debug.SetMaxStack limit in MiB, 0 = Go's default (1 GiB)
package main

import (
	"bytes"
	"encoding/hex"
	"fmt"
	"os"
	"os/exec"
	"path/filepath"
	"runtime/debug"
	"sort"
	"strconv"
	"strings"
	"time"

	"github.com/thought-machine/please/src/cli"
	"github.com/thought-machine/please/src/parse/asp"
	"verif/harness/lib"
)

const hangLimit = 2 * time.Second

// sizeLimit for the hang oracle: quadratic-time inputs above this size are not "hangs".
const hangSizeLimit = 64 << 10

func msgKind(m string) string {
	switch {
	case strings.HasPrefix(m, "Unexpected indent"):
		return "indent"
	case strings.HasPrefix(m, "Tabs are not permitted"):
		return "tab"
	case strings.HasPrefix(m, "Unknown symbol "):
		r := []rune(strings.TrimPrefix(m, "Unknown symbol "))
		if len(r) == 1 {
			if r[0] == 0xFFFD {
				return "sym?" // %c of a byte >= 0x80 prints U+FFFD… resolved by the caller from the input
			}
			return "sym" + strconv.Itoa(int(r[0]))
		}
		return "sym?"
	case strings.HasPrefix(m, "Unterminated string literal"):
		return "str"
	case strings.HasPrefix(m, "Illegal Unicode identifier "):
		r := []rune(strings.TrimPrefix(m, "Illegal Unicode identifier "))
		if len(r) == 1 {
			return "uni" + strconv.Itoa(int(r[0]))
		}
		return "uni?"
	}
	// parser messages (grammar_parse.go)
	switch {
	case strings.HasPrefix(m, "unexpected token ") && strings.Contains(m, ", expected one of "):
		return "oneof"
	case strings.HasPrefix(m, "unexpected token "):
		return "unexpected"
	case strings.HasPrefix(m, "'continue' outside loop"):
		return "continue"
	case strings.HasPrefix(m, "'break' outside loop"):
		return "break"
	case strings.HasPrefix(m, "expected 'in', not"):
		return "notin"
	case strings.HasPrefix(m, "int literal is too large"):
		return "intlarge"
	case strings.HasPrefix(m, "invalid int value"):
		return "intinvalid"
	case strings.HasPrefix(m, "Unexpected token ") && strings.Contains(m, ", expected one of , [ . ( = +="):
		return "identstmt"
	case strings.HasPrefix(m, "Unexpected token "):
		return "value"
	case strings.HasPrefix(m, "Cannot operate on keyword or constant"):
		return "keyword"
	case strings.HasPrefix(m, "Repeated argument"):
		return "repeated"
	case strings.HasPrefix(m, "Must have exactly 1 item in a list comprehension"):
		return "listcomp"
	case strings.HasPrefix(m, "Must have exactly 1 key:value pair in a dict comprehension"):
		return "dictcomp"
	case strings.HasPrefix(m, "Unterminated brace in fstring"):
		return "fbrace"
	}
	return "other"
}

func hexB(s string) string {
	if s == "" {
		return "-"
	}
	return hex.EncodeToString([]byte(s))
}

type lexResult struct {
	toks []asp.VerifToken
	out  asp.VerifOutcome
}

// withTimeout runs f; ok=false when it did not finish within hangLimit (the goroutine is abandoned).
func withTimeout[T any](f func() T) (res T, took time.Duration, ok bool) {
	ch := make(chan T, 1)
	t0 := time.Now()
	go func() { ch <- f() }()
	select {
	case res = <-ch:
		return res, time.Since(t0), true
	case <-time.After(hangLimit * 5):
		return res, time.Since(t0), false
	}
}

func showOutcome(data []byte, o asp.VerifOutcome) string {
	switch o.Class {
	case "ok":
		return "ok"
	case "positioned":
		k := msgKind(o.Message)
		if k == "sym?" && o.Offset >= 0 && o.Offset < len(data) {
			// "Unknown symbol %c" with a raw byte: %c prints the byte as a rune; recover the byte from the input
			k = "sym" + strconv.Itoa(int(data[o.Offset]))
		}
		return fmt.Sprintf("fail:%d:%s", o.Offset, k)
	case "runtime":
		return "runtime:" + o.Message
	}
	return o.Class + ":" + o.Message
}

// checkOutcome is the direct oracle on one outcome of the real code.
func checkOutcome(r *lib.Run, op string, what string, data []byte, o asp.VerifOutcome, escaped bool, classHint string) {
	n := len(data) + 3 // newline fix-up + two sentinels
	switch o.Class {
	case "ok":
	case "positioned":
		if o.Offset < 0 || o.Offset > n || o.Line < 1 {
			r.OracleFail(what+"-position-out-of-file", op, fmt.Sprintf("offset %d line %d col %d (input %d bytes)", o.Offset, o.Line, o.Column, len(data)))
		}
	case "runtime":
		cls := what + "-runtime-error"
		if classHint != "" {
			cls = classHint
		}
		r.OracleFail(cls, op, o.Message)
	default:
		r.OracleFail(what+"-unpositioned-"+o.Class, op, o.Message)
	}
	if escaped {
		r.OracleFail(what+"-panic-escaped-recovery", op, o.Class+": "+o.Message)
	}
}

// bareFStringAfterString is the class predicate of the known concatStrings defect, on the real token
// stream: a plain string literal directly followed by a run of adjacent string tokens that starts with an
// f-string and contains no `{var}` at all.
func bareFStringAfterString(toks []asp.VerifToken) bool {
	isStr := func(t asp.VerifToken) bool { return t.Type == -4 }
	isF := func(t asp.VerifToken) bool { return isStr(t) && strings.HasPrefix(t.Value, "f") }
	for i := 0; i+1 < len(toks); i++ {
		if isStr(toks[i]) && !isF(toks[i]) && isF(toks[i+1]) {
			vars := 0
			for j := i + 1; j < len(toks) && isStr(toks[j]); j++ {
				if isF(toks[j]) {
					vars += countVars(toks[j].Value[2 : len(toks[j].Value)-1])
				}
			}
			if vars == 0 {
				return true
			}
		}
	}
	return false
}

// countVars mirrors parseFString/findBrace closely enough to count `{var}` occurrences (independent re-statement).
func countVars(s string) int {
	n := 0
	for {
		idx := -1
		last := byte(' ')
		for i := 0; i < len(s); i++ {
			c := s[i]
			if c == '{' && last != '{' && last != '$' {
				if i+1 < len(s) && s[i+1] == '{' {
					last = c
					continue
				}
				idx = i
				break
			}
			last = c
		}
		if idx < 0 {
			return n
		}
		s = s[idx+1:]
		j := strings.IndexByte(s, '}')
		if j < 0 {
			return n
		}
		n++
		s = s[j+1:]
	}
}

func runLex(r *lib.Run, op string, data []byte) {
	res, took, ok := withTimeout(func() lexResult {
		t, o := asp.LexForVerif(data, "verif.build", 0)
		return lexResult{t, o}
	})
	if !ok || (took > hangLimit && len(data) <= hangSizeLimit) {
		r.OracleFail("lex-hang", op, took.String())
		if !ok {
			r.Emit(op, "hang", false)
			return
		}
	}
	checkOutcome(r, op, "lex", data, res.out, false, "")
	// token positions are inside the buffer and never go backwards
	last := 0
	for _, t := range res.toks {
		if t.Pos < last || t.Pos > len(data)+2 {
			r.OracleFail("lex-token-position", op, fmt.Sprint(t))
			break
		}
		last = t.Pos
	}
	parts := make([]string, len(res.toks))
	for i, t := range res.toks {
		parts[i] = fmt.Sprintf("%d:%s:%d", t.Type, hexB(t.Value), t.Pos)
	}
	ts := "-"
	if len(parts) > 0 {
		ts = strings.Join(parts, ",")
	}
	r.Count("lex-outcome:" + res.out.Class)
	if res.out.Class == "positioned" {
		k := msgKind(res.out.Message)
		if strings.HasPrefix(k, "sym") {
			k = "sym"
		} else if strings.HasPrefix(k, "uni") {
			k = "uni"
		}
		r.Count("lex-fail:" + k)
	}
	r.Emit(op, ts+"|"+showOutcome(data, res.out), len(res.toks) >= 3)
}

type parseResult struct {
	n       int
	out     asp.VerifOutcome
	escaped bool
}

func runParse(r *lib.Run, op string, data []byte) {
	res, took, ok := withTimeout(func() parseResult {
		n, o, esc, _ := asp.ParseForVerif(data, "verif.build")
		return parseResult{n, o, esc}
	})
	if !ok || (took > hangLimit && len(data) <= hangSizeLimit) {
		r.OracleFail("parse-hang", op, took.String())
		if !ok {
			r.Emit(op, "hang", false)
			return
		}
	}
	hint := ""
	if res.out.Class == "runtime" {
		toks, _ := asp.LexForVerif(data, "verif.build", 0)
		if strings.Contains(res.out.Message, "index out of range [0] with length 0") && bareFStringAfterString(toks) {
			hint = "concat-string-bare-fstring"
		}
	}
	checkOutcome(r, op, "parse", data, res.out, res.escaped, hint)
	r.Count("parse-outcome:" + res.out.Class)
	out := ""
	switch res.out.Class {
	case "ok":
		out = fmt.Sprintf("ok:%d", res.n)
	case "positioned":
		out = showOutcome(data, res.out)
		k := strings.SplitN(out, ":", 3)[2]
		if strings.HasPrefix(k, "sym") {
			k = "sym"
		} else if strings.HasPrefix(k, "uni") {
			k = "uni"
		}
		r.Count("parse-fail:" + k)
	case "runtime":
		out = "runtime"
	default:
		out = res.out.Class
	}
	r.Emit(op, out, res.out.Class == "ok" && res.n >= 1 || res.out.Class == "positioned")
}

// stress: the input is unit^count, parsed in a child process because a Go stack overflow cannot be recovered.
func runStress(r *lib.Run, op string, unit []byte, count, mb int) {
	self, _ := os.Executable()
	cmd := exec.Command(self)
	cmd.Env = append(os.Environ(), "VERIF_C19_CHILD=1", "VERIF_C19_UNIT="+hex.EncodeToString(unit), "VERIF_C19_COUNT="+strconv.Itoa(count), "VERIF_C19_STACK_MB="+strconv.Itoa(mb))
	var out bytes.Buffer
	cmd.Stdout = &out
	var errb tailBuffer
	cmd.Stderr = &errb
	t0 := time.Now()
	done := make(chan error, 1)
	if err := cmd.Start(); err != nil {
		panic(err)
	}
	go func() { done <- cmd.Wait() }()
	res := ""
	select {
	case err := <-done:
		switch {
		case err == nil:
			res = strings.TrimSpace(out.String())
		case strings.Contains(errb.head(), "stack overflow"):
			res = "crash:stack-overflow"
		default:
			res = "crash:" + err.Error()
		}
	case <-time.After(120 * time.Second):
		cmd.Process.Kill()
		res = "timeout"
	}
	r.Count("stress:" + strings.SplitN(res, ":", 2)[0])
	if strings.HasPrefix(res, "crash") {
		cls := "parser-recursion-stack-overflow"
		if lexOnlyUnit(unit) {
			cls = "lexer-recursion-stack-overflow"
		}
		if res != "crash:stack-overflow" {
			cls = "parse-process-crash"
		}
		r.OracleFail(cls, op, fmt.Sprintf("%s after %s on %d bytes", res, time.Since(t0).Round(time.Millisecond), len(unit)*count))
	} else if res == "runtime" || res == "panic" || res == "error" {
		r.OracleFail("parse-runtime-error", op, res)
	}
	// the model has nothing to say about Go's stack: the driver answers "stress" to every stress op
	r.Emit(op, "stress", false)
}

// lexOnlyUnit: the unit produces no token at all (blank lines, carriage returns, comments): the recursion that
// overflows is nextToken's self-call, not the parser.
func lexOnlyUnit(unit []byte) bool {
	toks, o := asp.LexForVerif(bytes.Repeat(unit, 3), "verif.build", 0)
	return o.Class == "ok" && len(toks) == 1
}

type tailBuffer struct{ b []byte }

func (t *tailBuffer) Write(p []byte) (int, error) {
	if len(t.b) < 4096 {
		t.b = append(t.b, p...)
	}
	return len(p), nil
}
func (t *tailBuffer) head() string { return string(t.b) }

func child() {
	unit, _ := hex.DecodeString(os.Getenv("VERIF_C19_UNIT"))
	count, _ := strconv.Atoi(os.Getenv("VERIF_C19_COUNT"))
	if mb, _ := strconv.Atoi(os.Getenv("VERIF_C19_STACK_MB")); mb > 0 {
		debug.SetMaxStack(mb << 20)
	}
	_, o, _, _ := asp.ParseForVerif(bytes.Repeat(unit, count), "verif.build")
	fmt.Println(o.Class)
}

func unhex(s string) ([]byte, bool) {
	if s == "-" {
		return nil, true
	}
	b, err := hex.DecodeString(s)
	return b, err == nil
}

func runOp(r *lib.Run, op string) {
	f := strings.Split(op, " ")
	switch {
	case len(f) == 2 && f[0] == "lex":
		if d, ok := unhex(f[1]); ok {
			runLex(r, op, d)
			return
		}
	case len(f) == 2 && f[0] == "parse":
		if d, ok := unhex(f[1]); ok {
			runParse(r, op, d)
			return
		}
	case len(f) == 4 && f[0] == "stress":
		d, ok := unhex(f[1])
		n, err := strconv.Atoi(f[2])
		mb, err2 := strconv.Atoi(f[3])
		if ok && err == nil && err2 == nil && n >= 0 && mb >= 0 && n*len(d) <= 64<<20 {
			runStress(r, op, d, n, mb)
			return
		}
	}
	r.Emit(op, "bad-op", false)
}

// ---------------------------------------------------------------- generators

func repoFiles() [][]byte {
	root := os.Getenv("VERIF_REPO")
	if root == "" {
		root = "/repo"
	}
	var paths []string
	filepath.Walk(root, func(p string, info os.FileInfo, err error) error {
		if err != nil {
			return nil
		}
		if info.IsDir() {
			if n := info.Name(); n == ".git" || n == "plz-out" || n == "node_modules" {
				return filepath.SkipDir
			}
			return nil
		}
		n := info.Name()
		if n == "BUILD" || n == "BUILD.plz" || strings.HasSuffix(n, ".build_defs") || strings.HasSuffix(n, ".build") || strings.HasSuffix(n, ".plz") {
			if info.Size() <= 48<<10 {
				paths = append(paths, p)
			}
		}
		return nil
	})
	sort.Strings(paths)
	var out [][]byte
	for _, p := range paths {
		if b, err := os.ReadFile(p); err == nil {
			out = append(out, b)
		}
	}
	return out
}

var fragments = []string{
	"x = 1\n", "x = -1\n", "x = 0o17\n", "x = 1 - 2\n", "x = 1 -2\n", "x=-  3\n", "x = 007\n", "x = 12345678901234567890\n",
	"s = \"a\"\n", "s = 'a'\n", "s = \"a\\\"b\"\n", "s = 'it\\'s'\n", "s = \"a\\nb\\tc\\\\d\\qe\"\n", "s = r\"a\\nb\"\n", "s = r'\\'\n",
	"s = f\"{a} and {b.c}\"\n", "s = f'{x}'\n", "s = f\"{{literal}} {v}\"\n", "s = f\"${x} {y}\"\n", "s = f\"a\" \"b\"\n", "s = \"a\" f\"{b}\"\n", "s = \"a\" \"b\" 'c'\n",
	"s = \"\"\"multi\nline\"\"\"\n", "s = '''multi\n\"line\"'''\n", "s = \"\"\"a\\\nb\"\"\"\n", "s = \"\"\"a\"\"b\"\"\"\n", "s = \"\"\"\"\"\"\n", "s = \"\"\n", "s = r\"\"\"x\\\"\"\"\n", "s = f\"\"\"{a}\n{b}\"\"\"\n",
	"def f(a, b:int=1, c:str|list=None, d&e=2) -> str:\n    \"\"\"doc\"\"\"\n    return a\n",
	"def f():\n    pass\n", "def f(x):\n    if x:\n        return 1\n    elif not x:\n        return 2\n    else:\n        return 3\n",
	"for i in range(10):\n    if i == 3:\n        continue\n    elif i >= 5:\n        break\n    x += i\n",
	"x = [i for i in y if i]\n", "x = {k: v for k, v in d.items()}\n", "x = [a for a in b for c in a if c]\n", "x = [\n    1,\n    2,\n]\n", "x = {\n  'a': 1,\n      'b': 2,\n}\n",
	"x = a if b else c\n", "x = a and b or not c\n", "x = a not in b\n", "x = a is not None\n", "x = a is None\n", "x = a // b % c * d / e\n", "x = a <= b != c >= d < e > f\n", "x = a | b\n",
	"x = y[1:2]\n", "x = y[:2]\n", "x = y[1:]\n", "x = y[:]\n", "x = y[-1]\n", "x = y[1][2].z(3)\n", "x = y.z.w\n", "x, y = 1, 2\n", "x[0] = 1\n", "x[0] += 1\n", "x.append(1)\n", "x.y.z(1)\n",
	"x = lambda a, b=1: a + b\n", "x = lambda: 1\n", "f(a, b = 1, c=2, *d)\n", "f(a=1, a=2)\n", "f(a==1)\n", "f(\n  name = 'x',\n  deps = [':y'],\n)\n", "assert x, 'msg'\n", "assert x\n", "raise 'x'\n", "return 1\n", "pass\n", "continue\n",
	"# comment\nx = 1  # trailing\n", "#\n#\n", "x = 1\n\n\n\ny = 2\n", "x = 1\r\ny = 2\r\n", "   x = 1\n", "x = 1\n  y = 2\n", "if x:\n    y = 1\n  z = 2\n", "if x:\n        y = 1\n    z = 2\n",
	"if x:\n    if y:\n        z = 1\nw = 2\n", "def f():\n    x = (1,\n2)\n    return x\n", "x = (1 +\n     2)\n", "x = 1 + \\\n  2\n", "\tx = 1\n", "x = 1;\n", "x = $y\n", "x = `y`\n", "x = 1 ~ 2\n", "x = a ? b\n",
	"héllo = 1\n", "x = 中文\n", "变量 = \"值\"\n", "x = a€b\n", "x = a\u00a0b\n", "𝒜 = 1\n", "x٣ = 1\n", "x = \"héllo\"\n",
	"subinclude('//build_defs:x')\n", "go_library(\n    name = \"x\",\n    srcs = glob([\"*.go\"], exclude = [\"*_test.go\"]),\n    visibility = [\"PUBLIC\"],\n    deps = [\n        \":y\",\n        \"//third_party/go:z\",\n    ],\n)\n",
	"x = f\"{a\"\n", "x = f\"a{b}c{d\"\n", "x = f\"{{a}} {b\"\n", "x = [1, 2 for i in y]\n", "x = [for i in y]\n", "x = {1: 2, 3: 4 for i in y}\n", "x = {for k in y}\n",
	"x = 1234567890123456789\n", "x = 123456789012345678\n", "x = -123456789012345678\n", "x = -1234567890123456789\n", "f(a = 1, b = 2, a = 3)\n", "f(a = 1)(a = 2)\n",
	"for x in y:\n    continue\n", "def f():\n    for x in y:\n        pass\n    continue\n", "for x in y:\n    def g():\n        break\n", "x = a not b\n", "x = a not in\n", "pass = 1\n", "None = 1\n", "x.y = 1\n", "x ! 1\n", "x += 1\n", "x -= 1\n",
	"", "\n", " ", "x", "x ", "x=", "(", ")", "]", "}", "(]", "((((", "\"", "'", "\"\"\"", "r", "f", "r\"", "f'", "\\", "-", "--1", "- 1", "0o", "0oo", "0o8", "!", "!=", "=!", "<>", "a.b.", "a..b", "def", "def f(", "def f():", "def f():\n", "if", "else:\n", "x = [", "x = [1 for", "x = {1:", "lambda", "not", "not not x", "x not", "x is", "x if y", "x if y else",
}

var alphabet = []string{
	"\"", "'", "\\", "\n", " ", "\x00", "\t", "\r", "(", ")", "[", "]", "{", "}", "=", "-", "0", "1", "9", "o", "r", "f", "x", "_", "#", ":", ",", ".", "+", "!", "<", "/", "*", "%", "|", "&", "$", "`", "~", ";", "@", "^", "?",
	"\x80", "\xbf", "\xc3", "\xc3\xa9", "\xe4\xb8\xad", "\xe2\x82\xac", "\xf0\x9d\x92\x9c", "\xed\xa0\x80", "\xef\xbf\xbd", "\xff", "\xc0\x80", "\xe4\xb8", "\xf0\x9d", "\xd9\xa3",
	"    ", "\n    ", "\n  ", "\"\"\"", "'''", "\\\n", "def ", "if ", "for ", " in ", "not ", "is ", "lambda ", "else", "elif ", "return ", "f\"", "r'", "{x}", "{{", "${",
}

func mutate(rng *lib.Rng, src []byte, k int) []byte {
	b := append([]byte{}, src...)
	for i := 0; i < k; i++ {
		ins := []byte(lib.Pick(rng, alphabet))
		pos := 0
		if len(b) > 0 {
			pos = rng.Intn(len(b) + 1)
		}
		switch rng.Intn(6) {
		case 0, 1: // insert
			b = append(b[:pos], append(ins, b[pos:]...)...)
		case 2: // delete a short range
			if pos < len(b) {
				e := pos + 1 + rng.Intn(3)
				if e > len(b) {
					e = len(b)
				}
				b = append(b[:pos], b[e:]...)
			}
		case 3: // overwrite
			if pos < len(b) {
				b[pos] = ins[0]
			}
		case 4: // truncate
			if len(b) > 0 && rng.Chance(30) {
				b = b[:pos]
			} else {
				b = append(b[:pos], append(ins, b[pos:]...)...)
			}
		default: // duplicate a slice somewhere else
			if len(b) > 1 {
				s := rng.Intn(len(b))
				e := s + 1 + rng.Intn(8)
				if e > len(b) {
					e = len(b)
				}
				chunk := append([]byte{}, b[s:e]...)
				b = append(b[:pos], append(chunk, b[pos:]...)...)
			}
		}
	}
	return b
}

// ---- near-valid program generator (drives the grammar; sometimes drops or doubles a token)

type gen struct {
	rng   *lib.Rng
	b     strings.Builder
	noise int // percent chance per emitted token of a fault
}

var identPool = []string{"x", "y", "foo", "_bar", "name", "deps", "srcs", "a1", "CONFIG", "é", "r", "f", "rf", "in", "None", "True"}
var strPool = []string{`"a"`, `'b'`, `"//pkg:t"`, `f"{x}"`, `f"p{x.y}s"`, `f"bare"`, `r"\d+"`, `""`, `"""m\nl"""`, `'''q"q'''`, `f'{x}{y}'`, `"{}"`, `f"{{}}"`, `"it\'s"`, `f"${x}"`}
var binOps = []string{"+", "-", "*", "/", "//", "%", "<", ">", "<=", ">=", "==", "!=", "and", "or", "in", "not in", "is", "is not", "|"}

func (g *gen) tok(s string) {
	if g.noise > 0 && g.rng.Chance(g.noise) {
		switch g.rng.Intn(4) {
		case 0: // drop
			return
		case 1: // double
			g.b.WriteString(s)
			g.b.WriteString(" ")
		case 2: // replace
			s = lib.Pick(g.rng, alphabet)
		default: // swap in a keyword/operator
			s = lib.Pick(g.rng, []string{"if", "else", "for", "in", "not", "lambda", "def", ":", ",", "=", "==", "(", ")", "[", "]", "{", "}", "pass", "return", "-", "."})
		}
	}
	g.b.WriteString(s)
}

func (g *gen) sp() {
	if g.rng.Chance(85) {
		g.b.WriteString(" ")
	} else if g.rng.Chance(30) {
		g.b.WriteString("  ")
	}
}

func (g *gen) expr(d int) {
	if d > 0 && g.rng.Chance(25) {
		g.tok(lib.Pick(g.rng, []string{"-", "not "}))
	}
	g.value(d)
	if d > 0 && g.rng.Chance(40) {
		g.sp()
		g.tok(lib.Pick(g.rng, binOps))
		g.sp()
		g.expr(d - 1)
	}
	if d > 0 && g.rng.Chance(10) {
		g.tok(" if ")
		g.expr(d - 1)
		g.tok(" else ")
		g.expr(d - 1)
	}
}

func (g *gen) exprList(d int, open, close string) {
	g.tok(open)
	n := g.rng.Intn(4)
	multi := g.rng.Chance(25)
	for i := 0; i < n; i++ {
		if multi {
			g.b.WriteString("\n" + strings.Repeat(" ", g.rng.Intn(9)))
		}
		g.expr(d - 1)
		if i < n-1 || g.rng.Chance(30) {
			g.tok(",")
			g.sp()
		}
	}
	if n == 1 && g.rng.Chance(30) {
		g.tok(" for ")
		g.tok(lib.Pick(g.rng, identPool))
		if g.rng.Chance(30) {
			g.tok(", ")
			g.tok(lib.Pick(g.rng, identPool))
		}
		g.tok(" in ")
		g.value(d - 1)
		if g.rng.Chance(30) {
			g.tok(" for ")
			g.tok(lib.Pick(g.rng, identPool))
			g.tok(" in ")
			g.value(d - 1)
		}
		if g.rng.Chance(40) {
			g.tok(" if ")
			g.value(d - 1)
		}
	}
	if multi {
		g.b.WriteString("\n")
	}
	g.tok(close)
}

func (g *gen) call(d int) {
	g.tok("(")
	n := g.rng.Intn(4)
	for i := 0; i < n; i++ {
		if g.rng.Chance(50) {
			g.tok(lib.Pick(g.rng, identPool))
			g.sp()
			g.tok("=")
			g.sp()
		}
		g.expr(d - 1)
		if i < n-1 || g.rng.Chance(20) {
			g.tok(", ")
		}
	}
	g.tok(")")
}

func (g *gen) value(d int) {
	k := g.rng.Intn(12)
	if d <= 0 && k >= 5 {
		k = g.rng.Intn(5)
	}
	switch k {
	case 0:
		g.tok(lib.Pick(g.rng, identPool))
	case 1:
		g.tok(strconv.Itoa(g.rng.Intn(1000)))
	case 2, 3:
		n := 1 + g.rng.Intn(3)
		if g.rng.Chance(70) {
			n = 1
		}
		for i := 0; i < n; i++ {
			g.tok(lib.Pick(g.rng, strPool))
			if i < n-1 {
				g.sp()
			}
		}
	case 4:
		g.tok(lib.Pick(g.rng, []string{"True", "False", "None"}))
	case 5:
		g.exprList(d, "[", "]")
	case 6:
		g.exprList(d, "(", ")")
	case 7:
		g.tok("{")
		n := g.rng.Intn(3)
		for i := 0; i < n; i++ {
			g.expr(d - 1)
			g.tok(": ")
			g.expr(d - 1)
			if i < n-1 {
				g.tok(", ")
			}
		}
		if n == 1 && g.rng.Chance(30) {
			g.tok(" for ")
			g.tok(lib.Pick(g.rng, identPool))
			g.tok(" in ")
			g.value(d - 1)
		}
		g.tok("}")
	case 8:
		g.tok("lambda")
		n := g.rng.Intn(3)
		for i := 0; i < n; i++ {
			g.tok(" " + lib.Pick(g.rng, identPool))
			if g.rng.Chance(30) {
				g.tok("=")
				g.expr(d - 1)
			}
			if i < n-1 {
				g.tok(",")
			}
		}
		g.tok(": ")
		g.expr(d - 1)
	default:
		g.tok(lib.Pick(g.rng, identPool))
		for j := g.rng.Intn(3); j > 0; j-- {
			if g.rng.Chance(50) {
				g.tok(".")
				g.tok(lib.Pick(g.rng, identPool))
			} else {
				g.call(d)
			}
		}
	}
	for g.rng.Chance(12) && d > 0 {
		g.tok("[")
		switch g.rng.Intn(5) {
		case 0:
			g.tok(":")
		case 1:
			g.tok(":")
			g.expr(d - 1)
		case 2:
			g.expr(d - 1)
			g.tok(":")
		case 3:
			g.expr(d - 1)
			g.tok(":")
			g.expr(d - 1)
		default:
			g.expr(d - 1)
		}
		g.tok("]")
	}
	if d > 0 && g.rng.Chance(8) {
		g.tok(".")
		g.tok(lib.Pick(g.rng, identPool))
		if g.rng.Chance(50) {
			g.call(d)
		}
	}
}

func (g *gen) nl(ind int) {
	g.tok("\n")
	for g.rng.Chance(6) {
		g.b.WriteString(lib.Pick(g.rng, []string{"\n", "  \n", "# c\n", "    # c\n", "\r\n"}))
	}
	_ = ind
}

func (g *gen) block(ind, d int, inFor bool) {
	n := 1 + g.rng.Intn(3)
	for i := 0; i < n; i++ {
		g.stmt(ind, d, inFor)
	}
}

func (g *gen) indent(ind int) {
	if g.noise > 0 && g.rng.Chance(g.noise) {
		ind += g.rng.Intn(5) - 2
		if ind < 0 {
			ind = 0
		}
	}
	g.b.WriteString(strings.Repeat(" ", ind))
}

func (g *gen) stmt(ind, d int, inFor bool) {
	g.indent(ind)
	k := g.rng.Intn(16)
	if d <= 0 && k >= 10 {
		k = g.rng.Intn(10)
	}
	switch k {
	case 0, 1, 2:
		g.tok(lib.Pick(g.rng, identPool))
		g.tok(" ")
		g.tok(lib.Pick(g.rng, []string{"=", "=", "+="}))
		g.tok(" ")
		g.expr(d)
		g.nl(ind)
	case 3:
		g.tok(lib.Pick(g.rng, identPool))
		g.call(d)
		g.nl(ind)
	case 4:
		g.tok(lib.Pick(g.rng, identPool))
		g.tok(", ")
		g.tok(lib.Pick(g.rng, identPool))
		g.tok(" = ")
		g.expr(d)
		g.nl(ind)
	case 5:
		g.tok(lib.Pick(g.rng, identPool))
		g.tok("[")
		g.expr(d - 1)
		g.tok("] ")
		g.tok(lib.Pick(g.rng, []string{"=", "+="}))
		g.tok(" ")
		g.expr(d)
		g.nl(ind)
	case 6:
		g.tok(lib.Pick(g.rng, identPool))
		g.tok(".")
		g.tok(lib.Pick(g.rng, identPool))
		g.call(d)
		g.nl(ind)
	case 7:
		if inFor && g.rng.Bool() {
			g.tok(lib.Pick(g.rng, []string{"continue", "break"}))
		} else {
			g.tok(lib.Pick(g.rng, []string{"pass", "pass", "continue", "break"}))
		}
		g.nl(ind)
	case 8:
		switch g.rng.Intn(4) {
		case 0:
			g.tok("return")
			for j := g.rng.Intn(3); j > 0; j-- {
				g.tok(" ")
				g.expr(d)
				if j > 1 {
					g.tok(",")
				}
			}
		case 1:
			g.tok("assert ")
			g.expr(d)
			if g.rng.Bool() {
				g.tok(", ")
				g.expr(d)
			}
		case 2:
			g.tok("raise ")
			g.expr(d)
		default:
			g.expr(d)
		}
		g.nl(ind)
	case 9:
		g.expr(d)
		g.nl(ind)
	case 10, 11:
		g.tok("if ")
		g.expr(d - 1)
		g.tok(":")
		g.nl(ind)
		g.block(ind+4, d-1, inFor)
		for g.rng.Chance(30) {
			g.indent(ind)
			g.tok("elif ")
			g.expr(d - 1)
			g.tok(":")
			g.nl(ind)
			g.block(ind+4, d-1, inFor)
		}
		if g.rng.Chance(40) {
			g.indent(ind)
			g.tok("else")
			g.tok(":")
			g.nl(ind)
			g.block(ind+4, d-1, inFor)
		}
	case 12, 13:
		g.tok("for ")
		g.tok(lib.Pick(g.rng, identPool))
		if g.rng.Chance(30) {
			g.tok(", ")
			g.tok(lib.Pick(g.rng, identPool))
		}
		g.tok(" in ")
		g.expr(d - 1)
		g.tok(":")
		g.nl(ind)
		g.block(ind+4, d-1, true)
	default:
		g.tok("def ")
		g.tok(lib.Pick(g.rng, identPool))
		g.tok("(")
		n := g.rng.Intn(4)
		for i := 0; i < n; i++ {
			g.tok(lib.Pick(g.rng, identPool))
			if g.rng.Chance(40) {
				g.tok(":")
				g.tok(lib.Pick(g.rng, []string{"bool", "str", "int", "list", "dict", "function", "config", "float"}))
				for g.rng.Chance(25) {
					g.tok("|")
					g.tok(lib.Pick(g.rng, []string{"bool", "str", "int", "list", "dict"}))
				}
			}
			if g.rng.Chance(20) {
				g.tok("&")
				g.tok(lib.Pick(g.rng, identPool))
			}
			if g.rng.Chance(40) {
				g.tok("=")
				g.expr(d - 1)
			}
			if i < n-1 || g.rng.Chance(15) {
				g.tok(", ")
			}
		}
		g.tok(")")
		if g.rng.Chance(25) {
			g.tok(" -> ")
			g.tok(lib.Pick(g.rng, []string{"bool", "str", "int", "list", "dict", "function", "config", "none", "float"}))
		}
		g.tok(":")
		g.nl(ind)
		if g.rng.Chance(40) {
			g.indent(ind + 4)
			g.tok(lib.Pick(g.rng, []string{`"""doc"""`, `"doc"`, `'''d\noc'''`}))
			g.nl(ind)
		}
		g.block(ind+4, d-1, false)
	}
}

func program(rng *lib.Rng, noise int) []byte {
	g := &gen{rng: rng, noise: noise}
	n := 1 + rng.Intn(4)
	for i := 0; i < n; i++ {
		g.stmt(0, 3, false)
	}
	return []byte(g.b.String())
}

func emitBoth(r *lib.Run, data []byte, tag string) {
	h := hexB(string(data))
	runOp(r, "lex "+h)
	runOp(r, "parse "+h)
	r.Count(tag)
}

func main() {
	if os.Getenv("VERIF_C19_CHILD") != "" {
		cli.InitLogging(cli.MinVerbosity)
		child()
		return
	}
	cli.InitLogging(cli.MinVerbosity)
	r := lib.Start()
	defer r.Finish()
	r.Rule = "lex: at least three tokens before the end; parse: ok with >= 1 statement, or a positioned error; distinct by op line"
	if ops := r.ReplayOps(); ops != nil {
		for _, op := range ops {
			runOp(r, op)
		}
		return
	}
	// 1. exhaustive small inputs: every single byte, every pair over the adversarial single-byte alphabet,
	//    every string up to length 3 (quick) / 4 (thorough) over a small core alphabet
	for c := 0; c < 256; c++ {
		emitBoth(r, []byte{byte(c)}, "exhaustive-1")
	}
	var singles []byte
	for _, a := range alphabet {
		if len(a) == 1 {
			singles = append(singles, a[0])
		}
	}
	for _, a := range singles {
		for _, b := range singles {
			emitBoth(r, []byte{a, b}, "exhaustive-2")
		}
	}
	core := []byte("\"'\\\n (=-0rfx#:\x00")
	var rec func(cur []byte, n int)
	rec = func(cur []byte, n int) {
		if len(cur) >= 3 {
			emitBoth(r, cur, "exhaustive-core")
		}
		if n == 0 {
			return
		}
		for _, c := range core {
			rec(append(append([]byte{}, cur...), c), n-1)
		}
	}
	rec(nil, r.N(3, 4))
	r.Exhaust = true

	// 2. the repository's own BUILD-language files and the grammar fragments
	files := repoFiles()
	for _, f := range files {
		emitBoth(r, f, "repo-file")
	}
	for _, f := range fragments {
		emitBoth(r, []byte(f), "fragment")
	}
	// 3. byte-level mutations of both
	var small [][]byte
	for _, f := range files {
		if len(f) <= 3000 {
			small = append(small, f)
		}
	}
	for i := 0; i < r.N(1000, 40000); i++ {
		var src []byte
		if r.Rng.Chance(60) || len(small) == 0 {
			src = []byte(lib.Pick(r.Rng, fragments))
			if r.Rng.Chance(30) {
				src = append(src, []byte(lib.Pick(r.Rng, fragments))...)
			}
		} else {
			src = lib.Pick(r.Rng, small)
		}
		emitBoth(r, mutate(r.Rng, src, 1+r.Rng.Intn(4)), "mutation")
	}
	// 4. random strings over the adversarial alphabet
	for i := 0; i < r.N(1000, 40000); i++ {
		var b []byte
		for j := 1 + r.Rng.Intn(12); j > 0; j-- {
			b = append(b, lib.Pick(r.Rng, alphabet)...)
		}
		emitBoth(r, b, "alphabet-random")
	}
	// 5. grammar-based programs: valid, and near-valid (token faults)
	for i := 0; i < r.N(1000, 40000); i++ {
		noise := 0
		tag := "program-valid"
		if r.Rng.Chance(60) {
			noise = 1 + r.Rng.Intn(6)
			tag = "program-near-valid"
		}
		emitBoth(r, program(r.Rng, noise), tag)
	}
	// 6. depth / length stress in a child process (Go stack overflow is fatal and cannot be recovered)
	type st struct {
		unit string
		n    int
	}
	stress := []st{{"(", 3000}, {"\n", 200000}, {"[", 20000}, {"x = 1\n", 30000}, {"\"a\" ", 3000}, {"#\n", 100000}, {"1+", 20000}, {"a.", 20000}, {"-", 100000}, {"not ", 100000}, {"f(", 20000}, {"x if y else ", 5000}, {"lambda:", 5000}, {"{1:", 5000}, {"x[", 5000}}
	if !r.Thorough() {
		stress = stress[:6]
	}
	for _, s := range stress {
		runOp(r, fmt.Sprintf("stress %s %d 0", hexB(s.unit), s.n))
	}
	if r.Thorough() {
		// the parser stack-overflow class and the repaired lexer one at Go's default stack limit (the corpus holds scaled-down
		// witnesses with a 32 MiB limit so that the quick tier stays quick)
		runOp(r, "stress 28 1200000 0")
		runOp(r, "stress 0a 4000000 0")
	}
}
