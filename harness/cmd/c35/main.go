// c35: correspondence + direct oracles for C35 (declared output hashes are enforced exactly) against Driver/C35.lean.
//
// Three streams, one op language:
//
//	unprefix <hexlist>                         core.BuildTarget.UnprefixedHashes in-process (result + target.Hashes afterwards)
//	dig <cid> <kinds> <table>                  digest table of a generated content (computed HERE, independently of plz:
//	                                           crypto primitives applied to the bytes this harness wrote) for the model
//	check <cfg> <checkers> <cid> <hexlist>     build.checkRuleHashes in-process (hook) on real files, all six algorithms
//	reset | conf | cache | def | build | poison | wipe | rmout | inplace
//	                                           end-to-end histories driven through the real plz binary ($VERIF_PLZ)
//
// Direct oracles (property stated on the real code, independent of the Lean model): a build that succeeds must leave
// outputs whose digest — recomputed here from the files in plz-out — is declared; a failed verification must leave no
// output and no new cache entry; a correct declared value must not be rejected.
package main

import (
	"crypto/sha1"
	"crypto/sha256"
	"encoding/hex"
	"flag"
	"fmt"
	"hash"
	"hash/crc32"
	"hash/crc64"
	"io"
	"os"
	"os/exec"
	"path/filepath"
	"sort"
	"strings"
	"sync"
	"time"

	"github.com/cespare/xxhash/v2"
	"github.com/pkg/xattr"
	"github.com/zeebo/blake3"

	"github.com/thought-machine/please/src/build"
	"github.com/thought-machine/please/src/core"
	"verif/harness/lib"
	logging "gopkg.in/op/go-logging.v1"
)

// ---------------------------------------------------------------- independent digests

var allAlgos = []string{"sha1", "sha256", "blake3", "xxhash", "crc32", "crc64"}
var algoSize = map[string]int{"sha1": 20, "sha256": 32, "blake3": 32, "xxhash": 8, "crc32": 4, "crc64": 8}

func newHash(a string) hash.Hash {
	switch a {
	case "sha1":
		return sha1.New()
	case "sha256":
		return sha256.New()
	case "blake3":
		return blake3.New()
	case "xxhash":
		return xxhash.New()
	case "crc32":
		return crc32.NewIEEE()
	case "crc64":
		return crc64.New(crc64.MakeTable(crc64.ISO))
	}
	panic("algo " + a)
}

func sum(a string, b []byte) []byte { h := newHash(a); h.Write(b); return h.Sum(nil) }

// node is a file or a directory tree.
type node struct {
	dir  bool
	data string
	kids map[string]*node
}

func file(s string) *node { return &node{data: s} }

// preimage: what the path hash of this output is taken over — a file's bytes; a directory's regular files' bytes in
// bytewise-sorted pre-order (names are not part of it: C09's finding, irrelevant here).
func (n *node) preimage() []byte {
	if !n.dir {
		return []byte(n.data)
	}
	names := make([]string, 0, len(n.kids))
	for k := range n.kids {
		names = append(names, k)
	}
	sort.Strings(names)
	var b []byte
	for _, k := range names {
		b = append(b, n.kids[k].preimage()...)
	}
	return b
}

func (n *node) write(p string) {
	os.RemoveAll(p)
	if !n.dir {
		os.MkdirAll(filepath.Dir(p), 0o755)
		if err := os.WriteFile(p, []byte(n.data), 0o644); err != nil {
			panic(err)
		}
		return
	}
	os.MkdirAll(p, 0o755)
	for k, c := range n.kids {
		c.write(filepath.Join(p, k))
	}
}

func readNode(p string) *node {
	st, err := os.Lstat(p)
	if err != nil {
		return nil
	}
	if !st.IsDir() {
		b, _ := os.ReadFile(p)
		return file(string(b))
	}
	n := &node{dir: true, kids: map[string]*node{}}
	ents, _ := os.ReadDir(p)
	for _, e := range ents {
		n.kids[e.Name()] = readNode(filepath.Join(p, e.Name()))
	}
	return n
}

func (n *node) equal(m *node) bool {
	if n == nil || m == nil || n.dir != m.dir {
		return false
	}
	if !n.dir {
		return n.data == m.data
	}
	if len(n.kids) != len(m.kids) {
		return false
	}
	for k, c := range n.kids {
		if !c.equal(m.kids[k]) {
			return false
		}
	}
	return true
}

// content = the outputs of one target (in sorted output-name order).  cid = shape letter + content letter.
type content struct {
	cid  string
	outs []*node
}

var shapes = []string{"F", "D", "M", "N", "G"}
var letters = "abcdefgh"

func mkContent(cid string) *content {
	if len(cid) != 2 || !strings.Contains("FDMNG", cid[:1]) {
		return nil
	}
	l := cid[1:]
	dir := func(tag string) *node {
		d := &node{dir: true, kids: map[string]*node{"x": file(tag + "x-" + l + "\n"), "y": file(tag + "y-" + l + "\n")}}
		if l >= "e" { // some directories have a nested one
			d.kids["sub"] = &node{dir: true, kids: map[string]*node{"z": file(tag + "z-" + l + "\n")}}
		}
		return d
	}
	switch cid[0] {
	case 'F', 'G':
		return &content{cid, []*node{file("f-" + l + "\n")}}
	case 'D':
		return &content{cid, []*node{dir("d")}}
	case 'M':
		return &content{cid, []*node{file("m1-" + l + "\n"), file("m2-" + l + "\n")}}
	case 'N':
		return &content{cid, []*node{dir("n"), file("n2-" + l + "\n")}}
	}
	return nil
}

func outNames(shape byte, name string) []string {
	switch shape {
	case 'F':
		return []string{name + ".out"}
	case 'D':
		return []string{name + ".dir"}
	case 'M':
		return []string{name + "_1.out", name + "_2.out"}
	case 'N':
		return []string{name + "_1.dir", name + "_2.out"}
	case 'G':
		return []string{name + ".src"}
	}
	panic("shape")
}

// digests of a list of output nodes under one algorithm
type digests struct {
	ph   [][]byte
	comb []byte
}

func digestsOf(a string, outs []*node) digests {
	var d digests
	var cat []byte
	for _, o := range outs {
		p := sum(a, o.preimage())
		d.ph = append(d.ph, p)
		cat = append(cat, p...) // names are NOT written: the target declares hashes
	}
	d.comb = sum(a, cat)
	return d
}

// targetHash: what `plz hash` prints (hash function a): lone non-directory → its hash, everything else → combined.
func targetHash(a string, outs []*node) []byte {
	d := digestsOf(a, outs)
	if len(outs) == 1 && !outs[0].dir {
		return d.ph[0]
	}
	return d.comb
}

// checkerHash: what the error message prints per checker: exactly one output → its hash, else combined.
func checkerHash(a string, outs []*node) []byte {
	d := digestsOf(a, outs)
	if len(outs) == 1 {
		return d.ph[0]
	}
	return d.comb
}

func kindsOf(outs []*node) string {
	s := ""
	for _, o := range outs {
		if o.dir {
			s += "d"
		} else {
			s += "f"
		}
	}
	return s
}

func digLine(c *content) string {
	var parts []string
	for _, a := range allAlgos {
		d := digestsOf(a, c.outs)
		p := []string{a, fmt.Sprint(algoSize[a]), hex.EncodeToString(d.comb)}
		for _, x := range d.ph {
			p = append(p, hex.EncodeToString(x))
		}
		parts = append(parts, strings.Join(p, ":"))
	}
	return "dig " + c.cid + " " + kindsOf(c.outs) + " " + strings.Join(parts, ";")
}

// ---------------------------------------------------------------- the property's acceptance condition (spec, in Go)

func unprefixSpec(s string) string {
	if i := strings.LastIndex(s, ":"); i >= 0 {
		return strings.TrimSpace(s[i+1:])
	}
	return s
}

// specAccepts: some declared value (prefix aside) is the hex digest of the outputs under the hash function or a checker.
// strict = only the forms the code is documented to accept (target hash under cfg, checker form under each checker).
func specAccepts(cfg string, checkers, declared []string, outs []*node, strict bool) bool {
	if len(declared) == 0 {
		return true
	}
	ok := map[string]bool{}
	if cfg != "" {
		ok[hex.EncodeToString(targetHash(cfg, outs))] = true
	}
	for _, a := range checkers {
		ok[hex.EncodeToString(checkerHash(a, outs))] = true
	}
	if !strict && cfg != "" { // the liberal reading of the property: either form under any configured algorithm
		ok[hex.EncodeToString(checkerHash(cfg, outs))] = true
		for _, a := range checkers {
			ok[hex.EncodeToString(targetHash(a, outs))] = true
		}
	}
	for _, d := range declared {
		if ok[unprefixSpec(d)] {
			return true
		}
	}
	return false
}

// ---------------------------------------------------------------- encoding

func hexList(xs []string) string {
	if len(xs) == 0 {
		return "-"
	}
	p := make([]string, len(xs))
	for i, x := range xs {
		if x == "" {
			p[i] = "e" // the empty string inside a list
		} else {
			p[i] = hex.EncodeToString([]byte(x))
		}
	}
	return strings.Join(p, ",")
}

func unHexList(s string) ([]string, bool) {
	if s == "-" {
		return nil, true
	}
	var out []string
	for _, p := range strings.Split(s, ",") {
		if p == "e" {
			out = append(out, "")
			continue
		}
		b, err := hex.DecodeString(p)
		if err != nil || len(b) == 0 {
			return nil, false
		}
		out = append(out, string(b))
	}
	return out, true
}

func validAlgo(a string) bool { return algoSize[a] != 0 }

func parseCheckers(s string) ([]string, bool) {
	if s == "-" {
		return nil, true
	}
	cs := strings.Split(s, ",")
	for _, c := range cs {
		if !validAlgo(c) {
			return nil, false
		}
	}
	return cs, true
}

// ---------------------------------------------------------------- in-process: real UnprefixedHashes / checkRuleHashes

var inprocRoot string
var states = map[string]*core.BuildState{}
var written = map[string]bool{}
var targetN int

func stateFor(cfg string, checkers []string) *core.BuildState {
	k := cfg + "|" + strings.Join(checkers, ",")
	if s, ok := states[k]; ok {
		return s
	}
	c := core.DefaultConfiguration()
	c.Build.HashFunction = cfg
	c.Build.HashCheckers = append([]string{}, checkers...)
	c.Build.Xattrs = false
	s := core.NewBuildState(c)
	states[k] = s
	return s
}

func runUnprefix(r *lib.Run, op string, f []string) {
	hs, ok := unHexList(f[1])
	if !ok || len(f) != 2 {
		r.Emit(op, "bad-op", false)
		return
	}
	t := core.NewBuildTarget(core.ParseBuildLabel("//p:u", ""))
	t.Hashes = append([]string{}, hs...)
	res := t.UnprefixedHashes()
	r.Emit(op, hexList(res)+"|"+hexList(t.Hashes), true)
	if strings.Join(t.Hashes, "\x00") != strings.Join(hs, "\x00") {
		// the declared list feeds the rule hash: rewriting it changes the stamp written after the check (fixed by 656076b)
		r.OracleFail("unprefixed-hashes-rewrites-declared-list", op, fmt.Sprintf("target.Hashes %q -> %q", hs, t.Hashes))
	}
	for i, h := range hs {
		if i < len(res) && res[i] != unprefixSpec(h) {
			r.OracleFail("unprefix-differs-from-spec", op, fmt.Sprintf("%q -> %q, spec %q", h, res[i], unprefixSpec(h)))
		}
		if strings.Contains(h, ":") {
			r.Count("unprefix:colon")
		} else {
			r.Count("unprefix:plain")
		}
	}
}

// parseBadHash splits checkRuleHashes' error message into the expected and actual lists.
func parseBadHash(msg string) (exp, was []string, ok bool) {
	const one, many, mid1, mid2 = ", expected ", ", expected one of: \n\t", ", but was: \n\t", "\nbut was \n\t"
	if i := strings.Index(msg, many); i >= 0 {
		rest := msg[i+len(many):]
		j := strings.LastIndex(rest, mid2)
		if j < 0 {
			return nil, nil, false
		}
		return strings.Split(rest[:j], "\n\t"), splitLines(rest[j+len(mid2):]), true
	}
	if i := strings.Index(msg, one); i >= 0 {
		rest := msg[i+len(one):]
		j := strings.LastIndex(rest, mid1)
		if j < 0 {
			return nil, nil, false
		}
		return []string{rest[:j]}, splitLines(rest[j+len(mid1):]), true
	}
	return nil, nil, false
}

func splitLines(s string) []string {
	if s == "" { // no checkers configured: strings.Join of nothing
		return nil
	}
	return strings.Split(s, "\n\t")
}

func runCheck(r *lib.Run, op string, f []string) {
	if len(f) != 5 || !validAlgo(f[1]) {
		r.Emit(op, "bad-op", false)
		return
	}
	cfg := f[1]
	checkers, ok1 := parseCheckers(f[2])
	c := mkContent(f[3])
	declared, ok2 := unHexList(f[4])
	if !ok1 || !ok2 || c == nil {
		r.Emit(op, "bad-op", false)
		return
	}
	names := outNames(c.cid[0], "c"+c.cid)
	if !written[c.cid] {
		for i, n := range names {
			c.outs[i].write(filepath.Join(inprocRoot, "plz-out/gen/p", n))
		}
		written[c.cid] = true
	}
	state := stateFor(cfg, checkers)
	targetN++
	t := core.NewBuildTarget(core.ParseBuildLabel(fmt.Sprintf("//p:t%d", targetN), ""))
	for _, n := range names {
		t.AddOutput(n)
	}
	t.Hashes = append([]string{}, declared...)
	out := lib.Safely(func() string {
		h, err := build.OutputHashForVerif(state, t)
		if err != nil {
			return "hash-error"
		}
		err = build.CheckRuleHashesForVerif(state, t, h)
		if err == nil {
			return "ok"
		}
		exp, was, ok := parseBadHash(err.Error())
		if !ok {
			return "bad-unparsed:" + lib.Hex(err.Error())
		}
		return "bad exp=" + hexList(exp) + " was=" + hexList(was)
	})
	accepted := out == "ok"
	r.Emit(op, out+"|hashes="+hexList(t.Hashes), len(declared) > 0)
	want := specAccepts(cfg, checkers, declared, c.outs, true)
	if accepted && !specAccepts(cfg, checkers, declared, c.outs, false) {
		r.OracleFail("wrong-hash-accepted", digLine(c)+"\n"+op, "checkRuleHashes returned nil although no declared value is a digest of the outputs")
	} else if !accepted && want && strings.HasPrefix(out, "bad") {
		r.OracleFail("correct-hash-rejected", digLine(c)+"\n"+op, "checkRuleHashes rejects a declared value that is the outputs' digest: "+out)
	}
	r.Count("check:" + c.cid[:1] + ":" + map[bool]string{true: "accept", false: "reject"}[accepted])
	if accepted != want {
		r.Count("check:differs-from-strict-spec")
	}
}

// ---------------------------------------------------------------- declared-value generator

type valueGen struct {
	r   *lib.Rng
	run *lib.Run
}

func flipNibble(r *lib.Rng, v string) string {
	if v == "" {
		return "0"
	}
	i := r.Intn(len(v))
	c := v[i]
	alt := "0123456789abcdef"
	n := alt[r.Intn(16)]
	for n == c {
		n = alt[r.Intn(16)]
	}
	return v[:i] + string(n) + v[i+1:]
}

var blanks = []string{" ", "\t", "  ", "\n", "\u00a0", "\u3000", " \t"}
var prefixes = []string{"sha256", "sha1", "blake3", "md5", "", "a:b", "sha1:sha256", "x y", "SHA256", ":"}

// one declared value for a target whose right content is c (other = a different content of the same shape)
func (g *valueGen) value(cfg string, checkers []string, c, other *content) string {
	a := lib.Pick(g.r, allAlgos)
	if g.r.Chance(55) { // bias towards algorithms that are configured
		a = lib.Pick(g.r, append([]string{cfg}, checkers...))
	}
	good := hex.EncodeToString(targetHash(a, c.outs))
	if g.r.Chance(30) {
		good = hex.EncodeToString(checkerHash(a, c.outs))
	}
	k := g.r.Intn(20)
	kind := ""
	v := ""
	switch {
	case k <= 4:
		kind, v = "correct", good
	case k == 5:
		kind, v = "near-miss", flipNibble(g.r, good)
	case k == 6:
		kind = "wrong-length"
		switch g.r.Intn(4) {
		case 0:
			v = good[:len(good)-1]
		case 1:
			v = good + "0"
		case 2:
			v = good[:len(good)/2]
		default:
			v = good + good
		}
	case k == 7 || k == 8:
		kind, v = "prefixed", lib.Pick(g.r, prefixes)+":"+good
	case k == 9:
		kind, v = "prefixed-blank", lib.Pick(g.r, prefixes)+":"+lib.Pick(g.r, blanks)+good+lib.Pick(g.r, append(blanks, ""))
	case k == 10:
		kind, v = "blank-no-colon", lib.Pick(g.r, []string{" ", "\t"})+good
	case k == 11:
		kind, v = "trailing-blank-no-colon", good+" "
	case k == 12:
		kind, v = "upper", strings.ToUpper(good)
	case k == 13:
		kind, v = "upper-prefixed", "sha256: "+strings.ToUpper(good)
	case k == 14:
		kind, v = "other-content", hex.EncodeToString(targetHash(a, other.outs))
	case k == 15:
		kind, v = "other-content-prefixed", a+": "+hex.EncodeToString(checkerHash(a, other.outs))
	case k == 16:
		kind, v = "colon-after", good+":"
	case k == 17:
		kind, v = "empty", ""
	case k == 18:
		kind, v = "prefixed-near-miss", a+":"+flipNibble(g.r, good)
	default:
		kind, v = "inner-blank", "sha256:"+good[:4]+" "+good[4:]
	}
	g.run.Count("value:" + kind)
	return v
}

func (g *valueGen) list(cfg string, checkers []string, c, other *content) []string {
	n := 1 + g.r.Intn(3)
	if g.r.Chance(4) {
		n = 0
	}
	out := make([]string, n)
	for i := range out {
		out[i] = g.value(cfg, checkers, c, other)
	}
	return out
}

var checkerSets = [][]string{
	{"sha1", "sha256", "blake3"}, {"sha1", "sha256", "blake3"}, {"sha1", "sha256", "blake3"},
	{"sha256"}, {"sha1"}, {"blake3", "sha256"}, {"crc32", "sha256"}, {"xxhash", "crc64"}, {"sha256", "sha1"}, {},
}

func (g *valueGen) config(exotic int) (string, []string) {
	if !g.r.Chance(exotic) {
		return "sha256", []string{"sha1", "sha256", "blake3"}
	}
	return lib.Pick(g.r, allAlgos), lib.Pick(g.r, checkerSets)
}

func chk(cs []string) string {
	if len(cs) == 0 {
		return "-"
	}
	return strings.Join(cs, ",")
}

func genInproc(r *lib.Run) []string {
	g := &valueGen{r.Rng, r}
	var ops []string
	// UnprefixedHashes: exhaustive over a small adversarial alphabet, then random longer values
	alpha := []string{"a", ":", " ", "\t", "\u00a0", "B"}
	var rec func(prefix string, depth int)
	rec = func(prefix string, depth int) {
		ops = append(ops, "unprefix "+hexList([]string{prefix}))
		if depth == 0 {
			return
		}
		for _, a := range alpha {
			rec(prefix+a, depth-1)
		}
	}
	rec("", r.N(3, 5))
	for i := 0; i < r.N(150, 3000); i++ {
		n := 1 + r.Rng.Intn(4)
		hs := make([]string, n)
		for j := range hs {
			var b strings.Builder
			for k := r.Rng.Intn(9); k > 0; k-- {
				b.WriteString(lib.Pick(r.Rng, []string{"a", "f", "0", ":", ":", " ", "\t", "\n", "\r", "\v", "\f", "\u0085", "\u00a0", "\u2003", "\u3000", "\u1680", "\u2028", "\u202f", "\u205f", "\u00e9", "Z", "sha1", "\u200b", "\ufeff", "\u180e"}))
			}
			hs[j] = b.String()
		}
		ops = append(ops, "unprefix "+hexList(hs))
	}
	// checkRuleHashes
	seen := map[string]bool{}
	for i := 0; i < r.N(1500, 10000); i++ {
		shape := lib.Pick(r.Rng, []string{"F", "F", "D", "D", "M", "N"})
		l := r.Rng.Intn(len(letters))
		c := mkContent(shape + letters[l:l+1])
		lo := (l + 1 + r.Rng.Intn(len(letters)-1)) % len(letters)
		other := mkContent(shape + letters[lo:lo+1])
		cfg, checkers := g.config(45)
		if !seen[c.cid] {
			seen[c.cid] = true
			ops = append(ops, digLine(c))
		}
		ops = append(ops, fmt.Sprintf("check %s %s %s %s", cfg, chk(checkers), c.cid, hexList(g.list(cfg, checkers, c, other))))
	}
	return ops
}

// ---------------------------------------------------------------- end-to-end histories

type tdef struct {
	name     string
	shape    byte
	variant  int
	cid      string
	declared []string
}

type conf struct {
	cfg      string
	checkers []string
}

func (c conf) String() string { return c.cfg + " " + chk(c.checkers) }

type realRepo struct {
	root, home, cache, log, plz string
}

func pyStr(s string) string {
	var b strings.Builder
	b.WriteByte('"')
	for _, r := range s {
		switch r {
		case '"':
			b.WriteString("\\\"")
		case '\\':
			b.WriteString("\\\\")
		case '\n':
			b.WriteString("\\n")
		case '\t':
			b.WriteString("\\t")
		default:
			b.WriteRune(r)
		}
	}
	b.WriteByte('"')
	return b.String()
}

func shWriteNode(n *node, path string) string {
	if !n.dir {
		return "echo " + strings.TrimSuffix(n.data, "\n") + " > " + path
	}
	parts := []string{"mkdir " + path}
	names := make([]string, 0, len(n.kids))
	for k := range n.kids {
		names = append(names, k)
	}
	sort.Strings(names)
	for _, k := range names {
		parts = append(parts, shWriteNode(n.kids[k], path+"/"+k))
	}
	return strings.Join(parts, " && ")
}

func (rr *realRepo) writeRepo(cf conf, cacheOn bool, defs map[string]*tdef, order []string) {
	var b strings.Builder
	b.WriteString("[build]\nhashfunction = " + cf.cfg + "\n")
	for _, c := range cf.checkers {
		b.WriteString("hashcheckers = " + c + "\n")
	}
	if cacheOn {
		b.WriteString("[cache]\ndir = " + rr.cache + "\n")
	} else {
		b.WriteString("[cache]\ndir = \n")
	}
	must(os.WriteFile(filepath.Join(rr.root, ".plzconfig"), []byte(b.String()), 0o644))
	var bf strings.Builder
	for _, n := range order {
		d := defs[n]
		hs := make([]string, len(d.declared))
		for i, h := range d.declared {
			hs[i] = pyStr(h)
		}
		c := mkContent(d.cid)
		names := outNames(d.shape, d.name)
		if d.shape == 'G' {
			fmt.Fprintf(&bf, "filegroup(name=%q, srcs=[%q], hashes=[%s])\n", d.name, names[0], strings.Join(hs, ", "))
			continue
		}
		cmds := []string{"echo " + d.name + " >> " + rr.log}
		for i, o := range c.outs {
			cmds = append(cmds, shWriteNode(o, names[i]))
		}
		outs := make([]string, len(names))
		for i, n := range names {
			outs[i] = fmt.Sprintf("%q", n)
		}
		fmt.Fprintf(&bf, "genrule(name=%q, outs=[%s], cmd=%s, hashes=[%s])\n", d.name, strings.Join(outs, ", "),
			pyStr(strings.Join(cmds, " && ")+fmt.Sprintf(" # v%d", d.variant)), strings.Join(hs, ", "))
	}
	os.MkdirAll(filepath.Join(rr.root, "p"), 0o755)
	must(os.WriteFile(filepath.Join(rr.root, "p/BUILD"), []byte(bf.String()), 0o644))
}

func must(err error) {
	if err != nil {
		panic(err)
	}
}

// writeSrc writes a filegroup source; inplace keeps the inode (and with it the hard link in plz-out).
func (rr *realRepo) writeSrc(d *tdef, inplace bool) {
	p := filepath.Join(rr.root, "p", outNames('G', d.name)[0])
	data := []byte(mkContent(d.cid).outs[0].data)
	if inplace {
		if f, err := os.OpenFile(p, os.O_WRONLY|os.O_TRUNC, 0o644); err == nil {
			f.Write(data)
			f.Close()
			return
		}
	}
	os.MkdirAll(filepath.Dir(p), 0o755)
	must(os.WriteFile(p+".tmp", data, 0o644))
	must(os.Rename(p+".tmp", p))
}

func (rr *realRepo) build(name string, extra ...string) (rc int, out string) {
	args := append([]string{"build", "-p", "-v", "error", "--noupdate", "-n", "2"}, extra...)
	args = append(args, "//p:"+name)
	cmd := exec.Command(rr.plz, args...)
	cmd.Dir = rr.root
	cmd.Env = []string{"HOME=" + rr.home, "XDG_CACHE_HOME=" + rr.home + "/.cache", "XDG_CONFIG_HOME=" + rr.home + "/.config",
		"PATH=/usr/local/bin:/usr/bin:/bin", "LC_ALL=C"}
	done := make(chan struct{})
	var b []byte
	var err error
	go func() { b, err = cmd.CombinedOutput(); close(done) }()
	select {
	case <-done:
	case <-time.After(120 * time.Second):
		cmd.Process.Kill()
		<-done
		return 124, "timeout"
	}
	if err != nil {
		rc = 1
		if ee, ok := err.(*exec.ExitError); ok {
			rc = ee.ExitCode()
		}
	}
	return rc, string(b)
}

func logLines(p string) int {
	b, err := os.ReadFile(p)
	if err != nil {
		return 0
	}
	return len(strings.Fields(string(b)))
}

// readOuts returns the output nodes found under dir for the target (nil entries = missing).
func readOuts(dir string, d *tdef) []*node {
	names := outNames(d.shape, d.name)
	outs := make([]*node, len(names))
	for i, n := range names {
		outs[i] = readNode(filepath.Join(dir, n))
	}
	return outs
}

func cidOf(shape byte, outs []*node) string {
	missing := 0
	for _, o := range outs {
		if o == nil {
			missing++
		}
	}
	if missing == len(outs) {
		return "missing"
	}
	if missing > 0 {
		return "partial"
	}
	for i := 0; i < len(letters); i++ {
		c := mkContent(string(shape) + letters[i:i+1])
		same := true
		for j := range outs {
			if !outs[j].equal(c.outs[j]) {
				same = false
			}
		}
		if same {
			return c.cid
		}
	}
	return "other"
}

func (rr *realRepo) cacheEntries(d *tdef) []string {
	ents, _ := os.ReadDir(filepath.Join(rr.cache, "p", d.name))
	var out []string
	for _, e := range ents {
		if e.IsDir() {
			out = append(out, filepath.Join(rr.cache, "p", d.name, e.Name()))
		}
	}
	sort.Strings(out)
	return out
}

func (rr *realRepo) cacheCids(d *tdef) []string {
	var out []string
	for _, e := range rr.cacheEntries(d) {
		out = append(out, cidOf(d.shape, readOuts(e, d)))
	}
	sort.Strings(out)
	return out
}

type hres struct {
	op, out string
	nontriv bool
}
type ofail struct{ class, detail string }

func runHistory(idx int, ops []string, scratch, plz string) ([]hres, []ofail, map[string]int) {
	dir := filepath.Join(scratch, fmt.Sprintf("h%d", idx))
	os.RemoveAll(dir)
	defer os.RemoveAll(dir)
	mk := func(p string) string { os.MkdirAll(filepath.Join(dir, p), 0o755); return filepath.Join(dir, p) }
	rr := &realRepo{root: mk("repo"), home: mk("home"), cache: mk("cache"), log: filepath.Join(dir, "log"), plz: plz}
	cf := conf{"sha256", []string{"sha1", "sha256", "blake3"}}
	cacheOn := false
	defs := map[string]*tdef{}
	var order []string
	lastOK := map[string]conf{} // configuration under which the target last passed the oracle
	tainted := map[string]bool{}
	var res []hres
	var fails []ofail
	counts := map[string]int{}
	// replayable text of this history: self-contained, i.e. with the digest tables of every content it mentions
	var histOps []string
	haveDig := map[string]bool{}
	for _, op := range ops {
		f := strings.Split(op, " ")
		need := ""
		switch {
		case f[0] == "dig" && len(f) > 1:
			haveDig[f[1]] = true
		case f[0] == "def" && len(f) == 6:
			need = f[4]
		case (f[0] == "poison" || f[0] == "inplace") && len(f) == 3:
			need = f[2]
		}
		if need != "" && !haveDig[need] && mkContent(need) != nil {
			haveDig[need] = true
			histOps = append(histOps, digLine(mkContent(need)))
		}
		histOps = append(histOps, op)
	}
	hist := strings.Join(histOps, "\n")
	bad := func(op string) { res = append(res, hres{op, "bad-op", false}) }
	for _, op := range ops {
		f := strings.Split(op, " ")
		switch f[0] {
		case "reset":
			res = append(res, hres{op, "ok", false})
		case "dig":
			if c := mkContent(f[1]); len(f) == 4 && c != nil && digLine(c) == op {
				res = append(res, hres{op, "ok", false})
			} else {
				bad(op)
			}
		case "conf":
			cs, ok := parseCheckers(f[2])
			if len(f) != 3 || !validAlgo(f[1]) || !ok {
				bad(op)
				continue
			}
			cf = conf{f[1], cs}
			res = append(res, hres{op, "ok", false})
		case "cache":
			cacheOn = f[1] == "1"
			res = append(res, hres{op, "ok", false})
		case "def":
			// def <name> <shape> <variant> <cid> <declared>
			if len(f) != 6 || len(f[2]) != 1 || mkContent(f[4]) == nil || f[4][0] != f[2][0] {
				bad(op)
				continue
			}
			hs, ok := unHexList(f[5])
			var v int
			if _, err := fmt.Sscan(f[3], &v); err != nil || !ok {
				bad(op)
				continue
			}
			if old, present := defs[f[1]]; present && old.shape != f[2][0] {
				bad(op)
				continue
			} else if !present {
				order = append(order, f[1])
			}
			defs[f[1]] = &tdef{f[1], f[2][0], v, f[4], hs}
			if f[2] == "G" {
				rr.writeSrc(defs[f[1]], false)
			}
			res = append(res, hres{op, "ok", false})
		case "inplace":
			// inplace <name> <cid>: the filegroup's source is overwritten in place
			d := defs[f[1]]
			if len(f) != 3 || d == nil || d.shape != 'G' || mkContent(f[2]) == nil || f[2][0] != 'G' {
				bad(op)
				continue
			}
			d.cid = f[2]
			rr.writeSrc(d, true)
			res = append(res, hres{op, "ok", false})
		case "wipe":
			os.RemoveAll(filepath.Join(rr.root, "plz-out"))
			res = append(res, hres{op, "ok", false})
		case "rmout":
			d := defs[f[1]]
			if d == nil {
				bad(op)
				continue
			}
			for _, n := range outNames(d.shape, d.name) {
				os.RemoveAll(filepath.Join(rr.root, "plz-out/gen/p", n))
			}
			res = append(res, hres{op, "ok", false})
		case "poison":
			// poison <name> <cid>: every cache entry of the target now holds other artifacts (fresh inodes)
			d := defs[f[1]]
			c := mkContent(f[2])
			if len(f) != 3 || d == nil || c == nil || c.cid[0] != d.shape || d.shape == 'G' {
				bad(op)
				continue
			}
			for _, e := range rr.cacheEntries(d) {
				for i, n := range outNames(d.shape, d.name) {
					c.outs[i].write(filepath.Join(e, n))
				}
			}
			res = append(res, hres{op, "ok", false})
		case "build", "build-noverify":
			d := defs[f[1]]
			if len(f) != 2 || d == nil {
				bad(op)
				continue
			}
			rr.writeRepo(cf, cacheOn, defs, order)
			gen := filepath.Join(rr.root, "plz-out/gen/p")
			before := cidOf(d.shape, readOuts(gen, d))
			cacheBefore := strings.Join(rr.cacheCids(d), ",")
			l0 := logLines(rr.log)
			var extra []string
			if f[0] == "build-noverify" {
				extra = []string{"--nohash_verification"}
			}
			rc, out := rr.build(d.name, extra...)
			ran := logLines(rr.log) - l0
			outs := readOuts(gen, d)
			after := cidOf(d.shape, outs)
			stamp := 0
			if after != "missing" {
				if b, err := xattr.LGet(filepath.Join(gen, outNames(d.shape, d.name)[0]), "user.plz_build"); err == nil && len(b) > 0 {
					stamp = 1
				}
			}
			cc := rr.cacheCids(d)
			cacheAfter := strings.Join(cc, ",")
			if !cacheOn || d.shape == 'G' {
				cc = nil
			}
			rcs := "ok"
			if rc != 0 {
				rcs = "fail"
			}
			line := fmt.Sprintf("rc=%s ran=%d out=%s stamp=%d cache=%s", rcs, ran, after, stamp, chk(cc))
			res = append(res, hres{op, line, len(d.declared) > 0})
			counts["e2e:"+string(d.shape)+":"+rcs+fmt.Sprintf(":ran%d", ran)]++
			_ = out // the failure text is not reliable (observed: exit 2 with only the output list printed after a config edit)
			if f[0] == "build-noverify" || len(d.declared) == 0 {
				if rc == 0 {
					delete(lastOK, d.name)
					// --nohash_verification stamps unverified outputs; later builds skip them.  The user opted out of
					// verification for these outputs, so the soundness oracle stays silent until they are rebuilt.
					tainted[d.name] = f[0] == "build-noverify" && len(d.declared) > 0
				}
				continue
			}
			if tainted[d.name] && rc == 0 && ran == 0 && before == after {
				counts["e2e:noverify-output-skipped-later"]++
				continue
			}
			tainted[d.name] = false
			// ---- direct oracles
			right := mkContent(d.cid)
			if rc == 0 {
				full := after != "missing" && after != "partial"
				if !full || !specAccepts(cf.cfg, cf.checkers, d.declared, outs, false) {
					class := "wrong-hash-accepted"
					prev, had := lastOK[d.name]
					switch {
					case d.shape == 'G' && before == after:
						class = "filegroup-unchanged-skips-hash-check"
					case had && full && ran == 0 && before == after && prev.cfg == cf.cfg && prev.String() != cf.String() &&
						specAccepts(prev.cfg, prev.checkers, d.declared, outs, false):
						class = "hashcheckers-change-not-reverified"
					}
					fails = append(fails, ofail{class, hist + "\n# at: " + op + ": plz build succeeded, plz-out holds " + after +
						", no declared value is its digest under " + cf.String()})
					counts["oracle:"+class]++
				} else {
					lastOK[d.name] = cf
				}
			} else {
				delete(lastOK, d.name)
				if after != "missing" {
					fails = append(fails, ofail{"output-left-after-failed-verification", hist + "\n# at: " + op + ": plz-out still holds " + after})
				}
				if cacheAfter != cacheBefore {
					fails = append(fails, ofail{"failed-output-stored-in-cache", hist + "\n# at: " + op + ": cache " + cacheBefore + " -> " + cacheAfter})
				}
				// completeness: a declared value that is a checker-form digest of the action's outputs must be accepted; one
				// that only matches the hash function's target hash is compared through the first comparison, which uses the
				// hash memoised for a rejected cache restore in the same process (stale-memo corner, modelled: C35_corner_stale_memo)
				viaCheckers := acceptsVia(cf.checkers, d.declared, right.outs)
				viaFirst := specAccepts(cf.cfg, nil, d.declared, right.outs, true)
				rejectedRestore := cacheOn && cacheBefore != ""
				switch {
				case viaCheckers, viaFirst && !rejectedRestore:
					fails = append(fails, ofail{"correct-hash-rejected", hist + "\n# at: " + op + ": the outputs the action produces are declared, build failed: " +
						strings.ReplaceAll(out, "\n", " | ")})
				case viaFirst:
					counts["e2e:stale-memo-corner"]++
				}
			}
		default:
			bad(op)
		}
	}
	return res, fails, counts
}

// acceptsVia: some declared value is the checker-form digest of outs under one of the checkers.
func acceptsVia(checkers, declared []string, outs []*node) bool {
	for _, a := range checkers {
		v := hex.EncodeToString(checkerHash(a, outs))
		for _, d := range declared {
			if unprefixSpec(d) == v {
				return true
			}
		}
	}
	return false
}

func contains(xs []string, x string) bool {
	for _, y := range xs {
		if y == x {
			return true
		}
	}
	return false
}

// ---- history generator

type hgen struct {
	r    *lib.Rng
	run  *lib.Run
	vg   *valueGen
	ops  []string
	digs map[string]bool
}

func (g *hgen) needDig(cid string) {
	if !g.digs[cid] {
		g.digs[cid] = true
		g.ops = append(g.ops, digLine(mkContent(cid)))
	}
}

func (g *hgen) otherOf(cid string) *content {
	l := strings.IndexByte(letters, cid[1])
	return mkContent(cid[:1] + letters[(l+1+g.r.Intn(len(letters)-1))%len(letters):][:1])
}

func (g *hgen) defOp(d *tdef) string {
	g.needDig(d.cid)
	return fmt.Sprintf("def %s %c %d %s %s", d.name, d.shape, d.variant, d.cid, hexList(d.declared))
}

// declared list for the e2e stream: no characters the BUILD-file round trip could disturb
func (g *hgen) declared(cf conf, cid string, mostlyGood bool) []string {
	c := mkContent(cid)
	hs := g.vg.list(cf.cfg, cf.checkers, c, g.otherOf(cid))
	if mostlyGood && g.r.Chance(60) {
		a := lib.Pick(g.r, append([]string{cf.cfg}, cf.checkers...))
		good := hex.EncodeToString(checkerHash(a, c.outs))
		if g.r.Chance(50) {
			good = hex.EncodeToString(targetHash(a, c.outs))
		}
		if g.r.Chance(30) {
			good = a + ": " + good
		}
		hs = append(hs, good)
		lib.Shuffle(g.r, hs)
	}
	// asp's addStrings drops empty strings from `hashes`, so a BUILD file cannot declare "": keep the e2e lists to what
	// the target really ends up with (the in-process stream does exercise "")
	var out []string
	for _, h := range hs {
		if h != "" {
			out = append(out, h)
		}
	}
	return out
}

// e2eConfig: as valueGen.config, but an empty `hashcheckers` cannot be written in a .plzconfig (no line = the default)
func (g *hgen) e2eCheckers() []string {
	for {
		if cs := lib.Pick(g.r, checkerSets); len(cs) > 0 {
			return cs
		}
	}
}

func (g *hgen) history(steps int) []string {
	g.ops = []string{"reset"}
	g.digs = map[string]bool{}
	cfgName, checkers := g.vg.config(25)
	if len(checkers) == 0 {
		checkers = g.e2eCheckers()
	}
	cf := conf{cfgName, checkers}
	g.ops = append(g.ops, "conf "+cf.String())
	cacheOn := g.r.Chance(60)
	g.ops = append(g.ops, "cache "+map[bool]string{true: "1", false: "0"}[cacheOn])
	nt := 1 + g.r.Intn(2)
	var ds []*tdef
	for i := 0; i < nt; i++ {
		shape := lib.Pick(g.r, []string{"F", "F", "D", "M", "N", "G", "G"})
		cid := shape + letters[g.r.Intn(len(letters)):][:1]
		d := &tdef{fmt.Sprintf("t%d", i), shape[0], 0, cid, g.declared(cf, cid, true)}
		ds = append(ds, d)
		g.ops = append(g.ops, g.defOp(d))
	}
	for st := 0; st < steps; st++ {
		d := lib.Pick(g.r, ds)
		if st > 0 {
			switch k := g.r.Intn(14); {
			case k <= 1: // rule changes, output does not
				d.variant++
				g.ops = append(g.ops, g.defOp(d))
				g.run.Count("edit:variant-same-output")
			case k <= 3: // output changes; declared list follows (or not)
				d.variant++
				d.cid = g.otherOf(d.cid).cid
				if g.r.Chance(70) {
					d.declared = g.declared(cf, d.cid, true)
				}
				g.ops = append(g.ops, g.defOp(d))
				g.run.Count("edit:new-output")
			case k <= 5: // only the declared list changes
				d.declared = g.declared(cf, d.cid, g.r.Chance(50))
				g.ops = append(g.ops, g.defOp(d))
				g.run.Count("edit:declared")
			case k == 6 && cacheOn && d.shape != 'G':
				c := g.otherOf(d.cid)
				g.needDig(c.cid)
				g.ops = append(g.ops, "poison "+d.name+" "+c.cid)
				if g.r.Chance(70) {
					g.ops = append(g.ops, "wipe")
				}
				g.run.Count("edit:poison")
			case k == 7:
				g.ops = append(g.ops, "wipe")
				g.run.Count("edit:wipe")
			case k == 8:
				g.ops = append(g.ops, "rmout "+d.name)
				g.run.Count("edit:rmout")
			case k == 9: // hashcheckers edited (hash function stays)
				cf.checkers = g.e2eCheckers()
				g.ops = append(g.ops, "conf "+cf.String())
				g.run.Count("edit:checkers")
			case k == 10 && d.shape == 'G':
				c := g.otherOf(d.cid)
				g.needDig(c.cid)
				d.cid = c.cid
				g.ops = append(g.ops, "inplace "+d.name+" "+c.cid)
				g.run.Count("edit:inplace")
			case k == 11:
				cacheOn = !cacheOn
				g.ops = append(g.ops, "cache "+map[bool]string{true: "1", false: "0"}[cacheOn])
				g.run.Count("edit:cache-toggle")
			default:
				g.run.Count("edit:none")
			}
		}
		if g.r.Chance(4) {
			g.ops = append(g.ops, "build-noverify "+d.name)
		} else {
			g.ops = append(g.ops, "build "+d.name)
		}
	}
	return g.ops
}

// ---------------------------------------------------------------- main

func isE2E(op string) bool {
	switch strings.SplitN(op, " ", 2)[0] {
	case "unprefix", "check":
		return false
	}
	return true
}

type segment struct {
	hist bool
	ops  []string
}

func split(ops []string) []segment {
	var segs []segment
	for _, op := range ops {
		kw := strings.SplitN(op, " ", 2)[0]
		startHist := kw == "reset"
		inproc := kw == "unprefix" || kw == "check"
		switch {
		case startHist:
			segs = append(segs, segment{true, []string{op}})
		case inproc:
			if len(segs) == 0 || segs[len(segs)-1].hist {
				segs = append(segs, segment{false, nil})
			}
			segs[len(segs)-1].ops = append(segs[len(segs)-1].ops, op)
		default:
			if len(segs) == 0 {
				segs = append(segs, segment{false, nil})
			}
			segs[len(segs)-1].ops = append(segs[len(segs)-1].ops, op)
		}
	}
	return segs
}

var mkCorpus = flag.String("mkcorpus", "", "write the witness op files of corpus/C35 into this directory and exit")

// corpusFiles: the witnesses of the known findings and of the recorded corner cases, as replayable histories.
func corpusFiles() map[string][]string {
	h := func(a string, cid string) string { return hex.EncodeToString(targetHash(a, mkContent(cid).outs)) }
	ch := func(a string, cid string) string { return hex.EncodeToString(checkerHash(a, mkContent(cid).outs)) }
	hl := func(xs ...string) string { return hexList(xs) }
	dig := func(cid string) string { return digLine(mkContent(cid)) }
	def := "conf sha256 sha1,sha256,blake3"
	return map[string][]string{
		"fixed-filegroup-unchanged-skips-hash-check.ops": {
			"# FIXED (/repo 2c4e62b): the filegroup check used to sit inside `if changed`; every build below must now verify",
			"reset", def, "cache 0", dig("Ga"), dig("Gb"),
			"def t0 G 0 Ga " + hl(h("sha256", "Ga")), "build t0",
			"# the declared value is edited to a near miss: links unchanged, the build must fail all the same",
			"def t0 G 0 Ga " + hl(flipFirst(h("sha256", "Ga"))), "build t0",
			"# a clean build of the same state fails",
			"wipe", "build t0",
			"# the source is overwritten in place (same inode as the link in plz-out): the new content must be verified",
			"def t0 G 1 Ga " + hl(h("sha256", "Ga")), "build t0", "inplace t0 Gb", "build t0",
		},
		"fixed-hashcheckers-change-not-reverified.ops": {
			"# FIXED (/repo 477defb): build.hashcheckers used to reach neither the rule hash nor the config hash; narrowing it must now",
			"# invalidate outputs that verified only under a dropped algorithm (the second build re-runs and fails)",
			"reset", def, "cache 0", dig("Fa"),
			"def t0 F 0 Fa " + hl("sha1: "+h("sha1", "Fa")), "build t0",
			"conf sha256 sha256", "build t0",
			"# a clean build under the same configuration fails too",
			"wipe", "build t0",
		},
		"corner-cases.ops": {
			"# (no property failure) hash function outside the checkers is still accepted through the first comparison",
			"reset", "conf crc32 sha256", "cache 1", dig("Fa"), dig("Fb"),
			"def t0 F 0 Fa " + hl(h("crc32", "Fa")), "build t0",
			"# ... and the memoised hash of a rejected (poisoned) restore makes the correct rebuild fail in that configuration",
			"wipe", "poison t0 Fb", "build t0",
			"# default configuration: a poisoned entry is rejected, the target rebuilt, the entry healed",
			"reset", def, "cache 1", "def t1 F 0 Fa " + hl(h("sha256", "Fa")), "build t1", "wipe", "poison t1 Fb", "build t1", "wipe", "build t1",
			"# same corner in the DEFAULT configuration: lone directory declared by its `plz hash` value (double hash) + poisoned entry",
			"reset", def, "cache 1", dig("Dc"), dig("De"),
			"def t5 D 0 Dc " + hl(h("sha256", "Dc")), "build t5", "wipe", "poison t5 De", "build t5", "build t5",
			"# lone directory: direct hash under a checker accepted, double hash only under the hash function",
			"reset", def, "cache 0", dig("Da"),
			"def t2 D 0 Da " + hl(ch("sha1", "Da")), "build t2",
			"def t2 D 1 Da " + hl(h("sha1", "Da")), "build t2",
			"def t2 D 2 Da " + hl(h("sha256", "Da")), "build t2",
			"# keep-old: rule changes, output does not, declared value wrong -> the old (stamped) output is removed",
			"reset", def, "cache 1", dig("Ma"),
			"def t3 M 0 Ma " + hl(h("blake3", "Ma")), "build t3",
			"def t3 M 1 Ma " + hl(strings.ToUpper(h("blake3", "Ma"))), "build t3", "build t3",
			"def t3 M 2 Ma " + hl("x:y: "+h("blake3", "Ma")+" \t"), "build t3", "build t3",
			"# --nohash_verification stamps a mismatching output; the next ordinary build skips it",
			"reset", def, "cache 0", dig("Fc"),
			"def t4 F 0 Fc " + hl(h("sha256", "Fa")), "build t4", "build-noverify t4", "build t4",
			"check sha256 sha1,sha256,blake3 Fa " + hl("sha256: "+h("sha256", "Fa")),
			"check sha256 sha1,sha256,blake3 Fa " + hl(" "+h("sha256", "Fa"), "a:b:"+strings.ToUpper(h("sha1", "Fa"))),
			"check xxhash - Da " + hl(ch("xxhash", "Da"), h("xxhash", "Da")),
			"unprefix " + hl("sha256: abc ", " abc", "a:b:c", ":", "x: :y", "\u00a0z", "q:\u00a0z\u3000"),
		},
	}
}

func flipFirst(v string) string {
	if v[0] == '0' {
		return "1" + v[1:]
	}
	return "0" + v[1:]
}

func main() {
	if len(os.Args) == 3 && os.Args[1] == "-mkcorpus" { // before lib.Start, which insists on -out
		for name, ops := range corpusFiles() {
			must(os.WriteFile(filepath.Join(os.Args[2], name), []byte(strings.Join(ops, "\n")+"\n"), 0o644))
		}
		return
	}
	r := lib.Start()
	defer r.Finish()
	logging.SetBackend(logging.NewLogBackend(io.Discard, "", 0)) // please's packages log through go-logging
	r.OutDir, _ = filepath.Abs(r.OutDir) // the in-process stream changes the working directory
	replay := r.ReplayOps()
	r.Rule = "a check / build of a target with a non-empty declared hash list (distinct op lines), or any unprefix case"
	plz := os.Getenv("VERIF_PLZ")
	scratch := os.Getenv("VERIF_SCRATCH")
	if scratch == "" {
		scratch = r.OutDir
	}
	scratch, _ = filepath.Abs(filepath.Join(scratch, "c35"))
	os.MkdirAll(scratch, 0o755)
	defer os.RemoveAll(scratch)
	inprocRoot = filepath.Join(scratch, "inproc")
	os.MkdirAll(inprocRoot, 0o755)
	must(os.Chdir(inprocRoot))
	core.RepoRoot = inprocRoot

	var ops []string
	if replay != nil {
		ops = replay
	} else {
		ops = genInproc(r)
		g := &hgen{r: r.Rng, run: r, vg: &valueGen{r.Rng, r}}
		for i := 0; i < r.N(36, 160); i++ {
			ops = append(ops, g.history(4+r.Rng.Intn(5))...)
		}
	}
	if os.Getenv("C35_GENONLY") != "" { // development aid: dump the generated op stream without executing it
		must(os.WriteFile(filepath.Join(r.OutDir, "ops_gen.txt"), []byte(strings.Join(ops, "\n")+"\n"), 0o644))
		return
	}
	segs := split(ops)
	type segRes struct {
		res    []hres
		fails  []ofail
		counts map[string]int
	}
	out := make([]segRes, len(segs))
	var wg sync.WaitGroup
	sem := make(chan struct{}, 8)
	for i, s := range segs {
		if !s.hist {
			continue
		}
		wg.Add(1)
		sem <- struct{}{}
		go func(i int, s segment) {
			defer wg.Done()
			defer func() { <-sem }()
			a, b, c := runHistory(i, s.ops, scratch, plz)
			out[i] = segRes{a, b, c}
		}(i, s)
	}
	wg.Wait()
	for i, s := range segs {
		if !s.hist {
			for _, op := range s.ops {
				f := strings.Split(op, " ")
				switch f[0] {
				case "unprefix":
					runUnprefix(r, op, f)
				case "check":
					runCheck(r, op, f)
				case "dig":
					if c := mkContent(f[1]); len(f) == 4 && c != nil && digLine(c) == op {
						r.Emit(op, "ok", false)
					} else {
						r.Emit(op, "bad-op", false)
					}
				default:
					r.Emit(op, "bad-op", false)
				}
			}
			continue
		}
		for _, x := range out[i].res {
			r.Emit(x.op, x.out, x.nontriv)
		}
		for _, f := range out[i].fails {
			r.OracleFail(f.class, f.detail, fmt.Sprintf("history segment %d", i))
		}
		for k, v := range out[i].counts {
			for j := 0; j < v; j++ {
				r.Count(k)
			}
		}
	}
}
