// C07 harness: see verif/harness/rulehash (shared with C08).
package main

import "verif/harness/rulehash"

func main() { rulehash.Main("C07") }
