// C37 harness: core.ReplaceSequences / ReplaceTestSequences, core.IterSources, filepath.Join and
// core.TryParseBuildLabel against the Lean model (Model/Cmd.lean), the Lean shellWords against real bash,
// and the direct oracle: the expansion, parsed by a real shell inside a really prepared build directory,
// must be exactly the existing paths of what the sequence names (or the sequence must be rejected).
package main

import (
	"bufio"
	"bytes"
	"encoding/base64"
	"fmt"
	"os"
	"os/exec"
	"path/filepath"
	"regexp"
	"sort"
	"strconv"
	"strings"
	"time"

	logging "gopkg.in/op/go-logging.v1"

	"github.com/thought-machine/please/src/core"
	"verif/harness/lib"
)

// ---------------------------------------------------------------- case description

type Label struct{ Sub, Pkg, Name string }

type TSpec struct {
	L    Label
	Outs []string
	Bin  bool
	EPs  [][2]string
	// Extra: the outputs that are not plain declared outs: named outputs (outs = {"grp": [...]}), or — FG — all the
	// outputs of a filegroup, which derives them from its sources.
	Extra []string
	FG    bool
}

type Input struct {
	Str string
	Lab *Label // nil: a file (sources: FileLabel, tools: SystemFileLabel when absolute else FileLabel)
}

const (
	roleSrc  = 1
	roleDep  = 2
	roleTool = 4
	roleData = 8
)

type DepDecl struct {
	Declared Label
	Roles    int
	Deps     []TSpec // resolved targets; the harness only builds graphs where this is [the declared target]
}

type Case struct {
	Test  bool
	Root  string // filled in by the harness at run time (cwd); "-" in generated op lines
	T     TSpec
	Srcs  []Input
	Tools []Input
	Deps  []DepDecl
	Cmd   string
}

func hx(s string) string { return lib.Hex(s) }

func encLabel(l Label) string { return hx(l.Sub) + ":" + hx(l.Pkg) + ":" + hx(l.Name) }

func encList(xs []string) string {
	if len(xs) == 0 {
		return "_"
	}
	p := make([]string, len(xs))
	for i, x := range xs {
		p[i] = hx(x)
	}
	return strings.Join(p, ",")
}

func encSpec(t TSpec) string {
	eps := "_"
	if len(t.EPs) > 0 {
		p := make([]string, len(t.EPs))
		for i, e := range t.EPs {
			p[i] = hx(e[0]) + "=" + hx(e[1])
		}
		eps = strings.Join(p, ",")
	}
	b := "0"
	if t.Bin {
		b = "1"
	}
	ex := "_"
	if len(t.Extra) > 0 {
		ex = "n:" + encList(t.Extra)
		if t.FG {
			ex = "f:" + encList(t.Extra)
		}
	}
	return encLabel(t.L) + ";" + encList(t.Outs) + ";" + b + ";" + eps + ";" + ex
}

func encInputs(xs []Input) string {
	if len(xs) == 0 {
		return "_"
	}
	p := make([]string, len(xs))
	for i, x := range xs {
		if x.Lab == nil {
			p[i] = "f:" + hx(x.Str)
		} else {
			p[i] = "l:" + encLabel(*x.Lab)
		}
	}
	return strings.Join(p, ",")
}

func encDeps(ds []DepDecl) string {
	if len(ds) == 0 {
		return "_"
	}
	p := make([]string, len(ds))
	for i, d := range ds {
		q := make([]string, len(d.Deps))
		for j, t := range d.Deps {
			q[j] = encSpec(t)
		}
		r := "_"
		if len(q) > 0 {
			r = strings.Join(q, "/")
		}
		p[i] = encLabel(d.Declared) + "|" + strconv.Itoa(d.Roles) + "|" + r
	}
	return strings.Join(p, "+")
}

// body of an op line that describes a target: <T> <srcs> <tools> <deps>
func encTarget(c *Case) string {
	return encSpec(c.T) + " " + encInputs(c.Srcs) + " " + encInputs(c.Tools) + " " + encDeps(c.Deps)
}

func (c *Case) rsOp() string {
	t := "0"
	if c.Test {
		t = "1"
	}
	return "rs " + t + " " + hx(c.Root) + " " + encTarget(c) + " " + hx(c.Cmd)
}

type parseErr struct{}

func must(ok bool) {
	if !ok {
		panic(parseErr{})
	}
}

func unhx(s string) string {
	if s == "-" {
		return ""
	}
	must(len(s)%2 == 0 && s != "")
	for _, c := range s {
		must((c >= '0' && c <= '9') || (c >= 'a' && c <= 'f'))
	}
	return lib.UnHex(s)
}

func decLabel(s string) Label {
	f := strings.Split(s, ":")
	must(len(f) == 3)
	return Label{unhx(f[0]), unhx(f[1]), unhx(f[2])}
}

func decList(s string) []string {
	if s == "_" {
		return nil
	}
	var out []string
	for _, x := range strings.Split(s, ",") {
		out = append(out, unhx(x))
	}
	return out
}

func decSpec(s string) TSpec {
	f := strings.Split(s, ";")
	must(len(f) == 5)
	t := TSpec{L: decLabel(f[0]), Outs: decList(f[1])}
	if f[4] != "_" {
		must(strings.HasPrefix(f[4], "n:") || strings.HasPrefix(f[4], "f:"))
		t.FG = strings.HasPrefix(f[4], "f:")
		t.Extra = decList(f[4][2:])
		must(len(t.Extra) > 0)
		in := map[string]bool{}
		for _, o := range t.Outs {
			in[o] = true
		}
		for _, e := range t.Extra {
			must(in[e])
		}
		must(!t.FG || len(t.Extra) == len(t.Outs))
		if t.FG {
			for i := range t.Outs {
				must(t.Extra[i] == t.Outs[i])
			}
		}
	}
	must(f[2] == "0" || f[2] == "1")
	t.Bin = f[2] == "1"
	if f[3] != "_" {
		for _, e := range strings.Split(f[3], ",") {
			kv := strings.Split(e, "=")
			must(len(kv) == 2)
			t.EPs = append(t.EPs, [2]string{unhx(kv[0]), unhx(kv[1])})
		}
	}
	// canonical form: outputs strictly ascending, non-empty, no "./" prefix; entry point names unique
	for i, o := range t.Outs {
		must(o != "" && !strings.HasPrefix(o, "./"))
		must(i == 0 || t.Outs[i-1] < o)
	}
	seen := map[string]bool{}
	for _, e := range t.EPs {
		must(!seen[e[0]])
		seen[e[0]] = true
	}
	return t
}

func decInputs(s string) []Input {
	if s == "_" {
		return nil
	}
	var out []Input
	for _, x := range strings.Split(s, ",") {
		switch {
		case strings.HasPrefix(x, "f:"):
			out = append(out, Input{Str: unhx(x[2:])})
		case strings.HasPrefix(x, "l:"):
			l := decLabel(x[2:])
			out = append(out, Input{Str: core.BuildLabel{Subrepo: l.Sub, PackageName: l.Pkg, Name: l.Name}.String(), Lab: &l})
		default:
			must(false)
		}
	}
	return out
}

func decDeps(s string) []DepDecl {
	if s == "_" {
		return nil
	}
	var out []DepDecl
	for _, x := range strings.Split(s, "+") {
		f := strings.Split(x, "|")
		must(len(f) == 3)
		d := DepDecl{Declared: decLabel(f[0])}
		n, err := strconv.Atoi(f[1])
		must(err == nil && n >= 1 && n <= 15 && strconv.Itoa(n) == f[1])
		d.Roles = n
		if f[2] != "_" {
			for _, t := range strings.Split(f[2], "/") {
				d.Deps = append(d.Deps, decSpec(t))
			}
		}
		out = append(out, d)
	}
	return out
}

func decTarget(f []string) *Case {
	must(len(f) == 4)
	return &Case{T: decSpec(f[0]), Srcs: decInputs(f[1]), Tools: decInputs(f[2]), Deps: decDeps(f[3])}
}

// wellFormed: what the harness can build as a real graph (the Lean driver applies the same test).
func (c *Case) wellFormed() bool {
	if c.T.FG {
		return false // the rule under test is not itself a filegroup (its sources would become its outputs)
	}
	seen := map[Label]bool{c.T.L: true}
	for _, d := range c.Deps {
		if seen[d.Declared] || len(d.Deps) != 1 || d.Deps[0].L != d.Declared {
			return false
		}
		seen[d.Declared] = true
	}
	roleOf := func(l Label) int {
		for _, d := range c.Deps {
			if d.Declared == l {
				return d.Roles
			}
		}
		return 0
	}
	// label inputs must be declared with the matching role, and vice versa
	ns, nt := 0, 0
	for _, s := range c.Srcs {
		if s.Lab != nil {
			if roleOf(*s.Lab)&roleSrc == 0 {
				return false
			}
			ns++
		} else if s.Str == "" {
			return false
		}
	}
	for _, s := range c.Tools {
		if s.Lab != nil {
			if roleOf(*s.Lab)&roleTool == 0 {
				return false
			}
			nt++
		} else if s.Str == "" {
			return false
		}
	}
	for _, d := range c.Deps {
		if d.Roles&roleSrc != 0 {
			ns--
		}
		if d.Roles&roleTool != 0 {
			nt--
		}
	}
	if ns != 0 || nt != 0 {
		return false
	}
	// no duplicate inputs (AddSource deduplicates, AddTool does not; keep both duplicate free)
	dup := func(xs []Input) bool {
		m := map[string]bool{}
		for _, x := range xs {
			k := x.Str
			if x.Lab != nil {
				k = "l:" + k
			}
			if m[k] {
				return true
			}
			m[k] = true
		}
		return false
	}
	return !dup(c.Srcs) && !dup(c.Tools)
}

// ---------------------------------------------------------------- the real graph

type nullWriter struct{}

func (nullWriter) Write(b []byte) (int, error) { return len(b), nil }

type stubHasher struct{}

func (stubHasher) OutputHash(*core.BuildTarget) ([]byte, error) {
	return base64.RawStdEncoding.DecodeString("gB4sUwsLkB1ODYKUxYrKGlpdYUI")
}
func (stubHasher) SetHash(*core.BuildTarget, []byte) {}

var state *core.BuildState

func bl(l Label) core.BuildLabel {
	return core.BuildLabel{Subrepo: l.Sub, PackageName: l.Pkg, Name: l.Name}
}

func mkTarget(s TSpec) *core.BuildTarget {
	t := core.NewBuildTarget(bl(s.L))
	named := map[string]bool{}
	for _, e := range s.Extra {
		named[e] = true
	}
	for _, o := range s.Outs {
		switch {
		case s.FG:
			// a filegroup re-outputs its sources: its outputs are derived, none is declared
			t.IsFilegroup = true
			t.AddSource(core.FileLabel{File: o, Package: s.L.Pkg})
		case named[o]:
			t.AddNamedOutput("grp", o)
		default:
			t.AddOutput(o)
		}
	}
	t.IsBinary = s.Bin
	for _, e := range s.EPs {
		t.AddEntryPoint(e[0], e[1])
	}
	return t
}

// build constructs the real target and graph. Order of declaration: sources, plain deps, tools, data.
func build(c *Case) (*core.BuildTarget, *core.BuildGraph) {
	g := core.NewGraph()
	t := mkTarget(c.T)
	if c.Test {
		t.Test = new(core.TestFields)
	}
	g.AddTarget(t)
	for _, d := range c.Deps {
		g.AddTarget(mkTarget(d.Deps[0]))
	}
	for _, s := range c.Srcs {
		if s.Lab != nil {
			t.AddSource(bl(*s.Lab))
		} else {
			t.AddSource(core.FileLabel{File: s.Str, Package: c.T.L.Pkg})
		}
	}
	for _, d := range c.Deps {
		if d.Roles&roleDep != 0 {
			t.AddDependency(bl(d.Declared))
		}
	}
	for _, s := range c.Tools {
		if s.Lab != nil {
			t.AddTool(bl(*s.Lab))
		} else if strings.HasPrefix(s.Str, "/") {
			t.AddTool(core.SystemFileLabel{Path: s.Str})
		} else {
			t.AddTool(core.FileLabel{File: s.Str, Package: c.T.L.Pkg})
		}
	}
	for _, d := range c.Deps {
		if d.Roles&roleData != 0 {
			t.AddDatum(bl(d.Declared))
		}
	}
	if err := t.ResolveDependencies(g); err != nil {
		panic(err)
	}
	state.Graph = g
	return t, g
}

func errClass(err error) string {
	m := err.Error()
	switch {
	case strings.Contains(m, "has multiple outputs"):
		return "multi"
	case strings.Contains(m, "it's not executable"):
		return "notexe"
	case strings.Contains(m, "tagged as binary but produces no output"):
		return "noout"
	case strings.Contains(m, "tools are not accessible at test time"):
		return "testtool"
	case strings.Contains(m, "has no outputs"):
		return "zero"
	case strings.Contains(m, "doesn't depend on target"):
		return "nodep"
	case strings.Contains(m, "Invalid build label"):
		return "badlabel"
	case strings.Contains(m, "slice bounds out of range"):
		return "slice"
	}
	return "hashfile" // MustHash on a path that is not there: the only other panic reachable here
}

func replace(c *Case, t *core.BuildTarget) (string, error) {
	if c.Test {
		return core.ReplaceTestSequences(state, t, c.Cmd)
	}
	return core.ReplaceSequences(state, t, c.Cmd)
}

// ---------------------------------------------------------------- bash

var emptyDir string

type bashRes struct {
	words []string
	marks string // per word: E exists / M missing
	rc    string
	ok    bool // protocol complete (no syntax error / abort)
}

// A persistent bash for the file-system oracle (spawning one bash per case costs ~15 ms here).  Not
// restricted (it must cd), so it is hardened instead: no PATH, job control off, the builtins that could end or
// redirect the server are disabled, and every text it evaluates is built from the generator's fixed atoms.
type bashServer struct {
	cmd *exec.Cmd
	in  interface{ Write([]byte) (int, error) }
	out *bufio.Reader
}

const serverScript = `__W() { printf '%s\0' "$#" "$@"; printf '\1'; for p in "$@"; do if test -e "$p" || test -L "$p"; then printf 'E'; else printf 'M'; fi; done; printf '\1'; }
set +m
enable -n exit exec logout kill trap source . ulimit umask alias
while IFS= read -r -d '' __D && IFS= read -r -d '' __X; do
  cd -- "$__D" 2>/dev/null || { printf '\2cd\3'; continue; }
  eval "__W $__X" 2>/dev/null
  __R=$?
  wait
  printf '\2%s\3' "$__R"
done`

var server *bashServer

func startServer() *bashServer {
	cmd := exec.Command("/bin/bash", "--norc", "--noprofile", "-c", serverScript)
	cmd.Env = []string{"PATH=/nonexistent", "LC_ALL=C.UTF-8", "HOME=/nonexistent"}
	cmd.Dir = emptyDir
	in, err := cmd.StdinPipe()
	if err != nil {
		panic(err)
	}
	out, err := cmd.StdoutPipe()
	if err != nil {
		panic(err)
	}
	if err := cmd.Start(); err != nil {
		panic(err)
	}
	return &bashServer{cmd: cmd, in: in, out: bufio.NewReader(out)}
}

func parseBash(b []byte) bashRes {
	i := bytes.LastIndexByte(b, 2)
	if i < 0 {
		return bashRes{}
	}
	res := bashRes{rc: string(b[i+1:])}
	parts := bytes.Split(b[:i], []byte{1})
	if len(parts) != 3 || len(parts[2]) != 0 {
		return res // the function did not run exactly once to completion
	}
	ws := bytes.Split(parts[0], []byte{0})
	if len(ws) < 2 || strconv.Itoa(len(ws)-2) != string(ws[0]) {
		return res
	}
	for _, w := range ws[1 : len(ws)-1] {
		res.words = append(res.words, string(w))
	}
	res.marks = string(parts[1])
	res.ok = true
	return res
}

// serverBash evaluates `__W <text>` in dir on the persistent bash.
func serverBash(dir, text string) bashRes {
	if strings.ContainsRune(text, 0) || strings.ContainsRune(dir, 0) {
		return bashRes{}
	}
	if server == nil {
		server = startServer()
	}
	if _, err := server.in.Write([]byte(dir + "\x00" + text + "\x00")); err != nil {
		server.cmd.Process.Kill()
		server.cmd.Wait()
		server = nil
		return bashRes{}
	}
	b, err := server.out.ReadBytes(3)
	if err != nil {
		server.cmd.Process.Kill()
		server.cmd.Wait()
		server = nil
		return bashRes{}
	}
	return parseBash(b[:len(b)-1])
}

func (b bashRes) canon() string {
	if !b.ok || b.rc != "0" {
		return "E"
	}
	return encList(b.words)
}

// inSubset: the texts on which the Lean shellWords must decide (words, or syntax error) exactly as bash
// does: ordinary characters, blanks, the two quotes and backslash.  Everything that can trigger an expansion
// or an operator is outside (the driver applies the same test).
func inSubset(s string) bool {
	for _, r := range s {
		if r == ' ' || r == '\t' {
			continue
		}
		if r <= 32 || r == 127 || strings.ContainsRune("$`*?[~#{}!|&;()<>", r) {
			return false
		}
	}
	return true
}

// ---------------------------------------------------------------- direct oracle

// The characters quote() would have to neutralise for a path to stay one literal word, beyond the ones
// it wraps in double quotes; this is the class predicate of the known finding.
func goodPathChar(r rune) bool {
	if r <= 32 || r == 127 {
		return false
	}
	return !strings.ContainsRune("\"'\\$`*?[~#{}!=%^", r)
}

func goodPath(p string) bool {
	if p == "" {
		return false
	}
	for _, r := range p {
		if !goodPathChar(r) {
			return false
		}
	}
	return true
}

type seqKind struct {
	kw                                 string
	runnable, multiple, dir, out, hash bool
}

var seqKinds = []seqKind{
	{"location", false, false, false, false, false},
	{"locations", false, true, false, false, false},
	{"exe", true, false, false, false, false},
	{"out_location", false, false, false, true, false},
	{"out_locations", false, true, false, true, false},
	{"out_exe", true, false, false, true, false},
	{"dir", false, true, true, false, false},
	{"out_dir", false, true, true, true, false},
	{"hash", false, true, true, false, true},
}

// single returns (kind, arg) when cmd is exactly one well-formed sequence.
func single(cmd string) (*seqKind, string) {
	for i := range seqKinds {
		k := &seqKinds[i]
		p := "$(" + k.kw + " "
		if strings.HasPrefix(cmd, p) && strings.HasSuffix(cmd, ")") {
			arg := cmd[len(p) : len(cmd)-1]
			if arg != "" && !strings.Contains(arg, ")") {
				return k, arg
			}
		}
	}
	return nil, ""
}

// expectation of the property for one single-sequence case, from the case description only.
type expect struct {
	reject  string   // non-empty: the property demands an error; value = why
	paths   []string // the paths that must be named (relative to where, see abs / fromRoot)
	where   string   // "tmp" (build dir), "root" (repo root), "abs" (absolute), "test" (test dir)
	skip    string   // non-empty: outside the oracle (reason)
	wantDir bool
	viaEP   bool // an entry point was selected
	tool    bool // the named target is a tool of the rule
	rootPkg bool // the named target lives in the root package
	outs    []string
	outKind string // how the dependency's outputs are declared
}

func cleanJoin(a ...string) string { return filepath.Join(a...) }

func outDir(t TSpec) string {
	d := core.GenDir
	if t.Bin {
		d = core.BinDir
	}
	return cleanJoin(d, t.L.Sub, t.L.Pkg)
}

func specOf(c *Case, k *seqKind, arg string) expect {
	if k.hash {
		return expect{skip: "hash"}
	}
	if core.LooksLikeABuildLabel(arg) {
		in, ep := arg, ""
		if i := strings.Index(arg, "|"); i >= 0 {
			in = arg[:i]
			ep = arg[i+1:]
			if j := strings.Index(ep, "|"); j >= 0 {
				ep = ep[:j]
			}
		}
		l, err := core.TryParseBuildLabel(in, c.T.L.Pkg, c.T.L.Sub)
		if err != nil {
			return expect{reject: "bad-label"}
		}
		lab := Label{l.Subrepo, l.PackageName, l.Name}
		var dep *TSpec
		roles := 0
		self := false
		if lab == c.T.L {
			dep, self = &c.T, true
		} else {
			for i := range c.Deps {
				if c.Deps[i].Declared == lab {
					dep, roles = &c.Deps[i].Deps[0], c.Deps[i].Roles
				}
			}
			if dep == nil && c.T.L.Sub != "" && lab.Sub == "" {
				return expect{skip: "implicit-subrepo"}
			}
		}
		if dep == nil {
			return expect{reject: "not-a-dependency"}
		}
		var outs []string
		if ep != "" {
			found := false
			for _, e := range dep.EPs {
				if e[0] == ep {
					outs, found = []string{e[1]}, true
				}
			}
			if !found {
				return expect{skip: "fatal-entry-point"}
			}
		} else {
			outs = dep.Outs
		}
		if k.runnable && !dep.Bin {
			return expect{reject: "not-binary"}
		}
		if !k.multiple && len(outs) != 1 {
			kind := "plain outs"
			if dep.FG {
				kind = "derived by a filegroup from its sources"
			} else if len(dep.Extra) == len(dep.Outs) {
				kind = "all named outputs"
			} else if len(dep.Extra) > 0 {
				kind = "plain and named outputs"
			}
			return expect{reject: fmt.Sprintf("needs-one-output-has-%d", len(outs)), outs: outs, outKind: kind}
		}
		tool := roles&roleTool != 0
		if c.Test && tool {
			return expect{reject: "tool-at-test-time"}
		}
		e := expect{wantDir: k.dir, viaEP: ep != "", tool: tool && !self, rootPkg: dep.L.Pkg == ""}
		base := ""
		switch {
		case tool && !self:
			e.where, base = "abs", cleanJoin(c.Root, outDir(*dep))
		case k.out:
			e.where, base = "root", outDir(*dep)
		case c.Test && self:
			e.where, base = "test", "."
		case c.Test:
			if roles&roleData == 0 {
				return expect{skip: "build-only-dependency-in-test-command"}
			}
			e.where, base = "test", dep.L.Pkg
		case self:
			return expect{skip: "own-output-in-build-command"}
		default:
			if roles == roleData || (roles&roleData != 0 && roles&roleSrc == 0) {
				return expect{skip: "data-dependency-in-build-command"}
			}
			e.where, base = "tmp", dep.L.Pkg
		}
		if k.dir {
			if len(outs) == 0 {
				return expect{skip: "dir-of-nothing"}
			}
			if base == "" {
				base = "."
			}
			e.paths = []string{base}
			if e.where == "test" && self {
				return expect{skip: "dir-of-self-in-test"}
			}
		} else {
			for _, o := range outs {
				if e.where == "test" && self {
					e.paths = append(e.paths, "./"+o)
				} else {
					e.paths = append(e.paths, cleanJoin(base, o))
				}
			}
		}
		return e
	}
	// a plain name: a file among the sources (tools for exe), or an absolute path
	if strings.HasPrefix(arg, "/") {
		return expect{skip: "absolute-path"}
	}
	ins := c.Srcs
	if k.runnable {
		ins = c.Tools
	}
	for _, s := range ins {
		if s.Lab == nil && s.Str == arg {
			if k.runnable {
				return expect{skip: "file-tool"}
			}
			if c.Test {
				return expect{skip: "source-file-in-test-command"}
			}
			if k.dir {
				return expect{skip: "dir-of-file"}
			}
			if k.out {
				return expect{skip: "out-location-of-file"}
			}
			return expect{where: "tmp", paths: []string{cleanJoin(c.T.L.Pkg, arg)}}
		}
	}
	if c.Test {
		return expect{skip: "plain-name-in-test-command"}
	}
	return expect{reject: "not-a-source-file"}
}

// materialise creates, under root, the files a build of the case's inputs would have produced and then
// lets the real code (IterSources / IterRuntimeFiles + PrepareSource) populate the directory the command
// runs in.  Returns that directory.
func materialise(c *Case, t *core.BuildTarget, g *core.BuildGraph, root string) (string, error) {
	touch := func(rel string) error {
		p := filepath.Join(root, rel)
		if !strings.HasPrefix(p, root+"/") {
			return fmt.Errorf("escapes root: %q", rel)
		}
		if err := os.MkdirAll(filepath.Dir(p), 0o755); err != nil {
			return err
		}
		if st, err := os.Lstat(p); err == nil && st.IsDir() {
			return nil
		}
		return os.WriteFile(p, []byte("x"), 0o644)
	}
	for _, s := range c.Srcs {
		if s.Lab == nil {
			if err := touch(filepath.Join(c.T.L.Pkg, s.Str)); err != nil {
				return "", err
			}
		}
	}
	for _, d := range c.Deps {
		for _, o := range d.Deps[0].Outs {
			if err := touch(filepath.Join(outDir(d.Deps[0]), o)); err != nil {
				return "", err
			}
		}
	}
	for _, o := range c.T.Outs {
		if err := touch(filepath.Join(outDir(c.T), o)); err != nil {
			return "", err
		}
	}
	if c.Test {
		dir := filepath.Join(root, "plz-out/tmp/_test_dir")
		if err := os.MkdirAll(dir, 0o755); err != nil {
			return "", err
		}
		for src, tmp := range core.IterRuntimeFiles(g, t, true, "plz-out/tmp/_test_dir") {
			if err := core.PrepareSource(src, tmp); err != nil {
				return "", err
			}
		}
		return dir, nil
	}
	dir := filepath.Join(root, t.TmpDir())
	if err := os.MkdirAll(dir, 0o755); err != nil {
		return "", err
	}
	for src, tmp := range core.IterSources(state, g, t, false) {
		if err := core.PrepareSource(src, tmp); err != nil {
			return "", err
		}
	}
	return dir, nil
}

type oracleJob struct {
	op     string
	c      *Case
	k      *seqKind
	arg    string
	ex     expect
	out    string
	errc   string
	runDir string
	rootN  string
}

func sameStrings(a, b []string) bool {
	if len(a) != len(b) {
		return false
	}
	for i := range a {
		if a[i] != b[i] {
			return false
		}
	}
	return true
}

func judge(r *lib.Run, j *oracleJob, br *bashRes) {
	r.Count("oracle:" + j.k.kw)
	if j.ex.skip != "" {
		r.Count("oracle-skip:" + j.ex.skip)
		return
	}
	if j.ex.reject != "" {
		r.Count("oracle-expect-reject:" + strings.SplitN(j.ex.reject, "-has-", 2)[0])
		if j.errc == "" {
			cls := "accepted-" + j.ex.reject
			switch {
			case j.ex.reject == "not-a-source-file":
				cls = "plain-name-not-checked-against-sources"
			case j.ex.reject == "needs-one-output-has-0":
				cls = "single-output-sequence-accepts-zero-outputs"
			case strings.HasPrefix(j.ex.reject, "needs-one-output-has-"):
				// a singular sequence must expand to exactly one path or be rejected
				cls = "singular-location-expands-to-several-paths"
			}
			detail := fmt.Sprintf("$(%s %s) must be rejected (%s) but expands to %q", j.k.kw, j.arg, j.ex.reject, j.out)
			if cls == "singular-location-expands-to-several-paths" {
				detail = fmt.Sprintf("command `cp $(%s %s) $OUT` of %s: the dependency has the outputs %q (%s), the singular sequence is not rejected and expands to %q — several shell words",
					j.k.kw, j.arg, bl(j.c.T.L), j.ex.outs, j.ex.outKind, j.out)
			}
			r.OracleFail(cls, j.op, detail)
		}
		return
	}
	r.Count("oracle-expect-paths")
	if j.errc != "" {
		r.OracleFail("valid-sequence-rejected", j.op, fmt.Sprintf("$(%s %s) names %q but is rejected: %s", j.k.kw, j.arg, j.ex.paths, j.errc))
		return
	}
	if br == nil {
		return
	}
	allGood := true
	for _, p := range j.ex.paths {
		if !goodPath(p) {
			allGood = false
		}
	}
	if !allGood {
		r.Count("oracle-path-with-shell-special")
	}
	fail := ""
	if !br.ok {
		fail = fmt.Sprintf("the shell cannot parse the expansion %q as arguments (rc=%s)", j.out, br.rc)
	} else if !sameStrings(br.words, j.ex.paths) {
		fail = fmt.Sprintf("expansion %q reaches the command as %q, the named paths are %q", j.out, br.words, j.ex.paths)
	} else if strings.Contains(br.marks, "M") {
		fail = fmt.Sprintf("expansion %q names %q of which %s do not exist in the %s directory", j.out, br.words, br.marks, j.ex.where)
		if j.ex.tool && j.ex.viaEP && allGood {
			r.OracleFail("tool-entry-point-not-absolute", j.op, fail)
		} else {
			r.OracleFail("expansion-names-missing-file", j.op, fail)
		}
		return
	}
	if fail == "" {
		r.Count("oracle-pass")
		return
	}
	if !allGood {
		r.OracleFail("quote-misses-shell-metachar", j.op, fail)
	} else if j.ex.tool && j.ex.viaEP {
		r.OracleFail("tool-entry-point-not-absolute", j.op, fail)
	} else if j.k.dir && !j.k.out && j.ex.rootPkg && !j.ex.tool {
		r.OracleFail("dir-of-root-package-is-empty", j.op, fail)
	} else {
		r.OracleFail("expansion-not-the-named-words", j.op, fail)
	}
}

// ---------------------------------------------------------------- ops

func withCwd(dir string, f func()) {
	old, _ := os.Getwd()
	if err := os.Chdir(dir); err != nil {
		panic(err)
	}
	oldRoot := core.RepoRoot
	core.RepoRoot = dir
	defer func() { core.RepoRoot = oldRoot; os.Chdir(old) }()
	f()
}

type pending struct{}

// runRS evaluates one rs case on the real code and emits it; when the command is a single sequence the
// oracle job is queued (bash runs later, in parallel).
func runRS(r *lib.Run, p *pending, f []string, withFS bool) {
	must(len(f) == 8)
	must(f[1] == "0" || f[1] == "1")
	c := decTarget(f[3:7])
	c.Test = f[1] == "1"
	c.Cmd = unhx(f[7])
	_ = unhx(f[2])
	if !c.wellFormed() {
		must(false)
	}
	root := filepath.Clean(filepath.Join(emptyDir, "..", "root"))
	os.RemoveAll(root)
	if err := os.MkdirAll(root, 0o755); err != nil {
		panic(err)
	}
	defer os.RemoveAll(root)
	c.Root = root
	op := c.rsOp() // the op line carries the actual cwd so the model can compute filepath.Abs
	withCwd(root, func() {
		t, g := build(c)
		impl := ""
		out, errc := "", ""
		switch {
		case c.Test && strings.HasPrefix(c.Cmd, "$(worker"):
			impl = "unmodelled"
		case needsChild(c):
			// may end in log.Fatalf (os.Exit): evaluate in a child process
			r.Count("rs-in-child-process")
			impl = childRS(root, op)
			if strings.HasPrefix(impl, "err:") {
				errc = impl[4:]
			} else if strings.HasPrefix(impl, "ok:") {
				out = unhx(impl[3:])
			}
		default:
			res, err := replace(c, t)
			if err != nil {
				errc = errClass(err)
				impl = "err:" + errc
			} else {
				out = res
				impl = "ok:" + hx(res)
			}
		}
		k, arg := single(c.Cmd)
		r.Emit(op, impl, k != nil && errc == "")
		if errc != "" {
			r.Count("rs-err:" + errc)
		} else {
			r.Count("rs-ok")
		}
		if k == nil {
			r.Count("rs-composite")
			return
		}
		j := &oracleJob{op: op, c: c, k: k, arg: arg, ex: specOf(c, k, arg), out: out, errc: errc, rootN: root}
		if j.ex.skip == "" && j.ex.reject == "" && errc == "" {
			if withFS {
				dir, err := materialise(c, t, g, root)
				if err != nil {
					r.Count("oracle-materialise-failed")
					j.ex = expect{skip: "materialise-failed"}
				} else {
					switch j.ex.where {
					case "root":
						j.runDir = root
					default:
						j.runDir = dir
					}
				}
			} else {
				j.ex = expect{skip: "no-fs-in-this-batch"}
			}
		}
		var br *bashRes
		if j.runDir != "" {
			b := serverBash(j.runDir, j.out)
			br = &b
		}
		judge(r, j, br)
	})
}

// childRS re-runs this binary for one rs op; an exit without output is the log.Fatalf path.
func childRS(root, op string) string {
	self, err0 := os.Executable()
	if err0 != nil {
		panic(err0)
	}
	cmd := exec.Command(self, "-child-rs", op)
	cmd.Dir = root
	var out bytes.Buffer
	cmd.Stdout = &out
	err := cmd.Run()
	s := strings.TrimSpace(out.String())
	if s == "" && err != nil {
		return "err:noep"
	}
	return s
}

func childMain(op string) {
	f := strings.Split(op, " ")
	c := decTarget(f[3:7])
	c.Test = f[1] == "1"
	c.Cmd = unhx(f[7])
	c.Root, _ = os.Getwd()
	core.RepoRoot = c.Root
	state = core.NewDefaultBuildState()
	state.TargetHasher = stubHasher{}
	t, _ := build(c)
	res, err := replace(c, t)
	if err != nil {
		fmt.Println("err:" + errClass(err))
	} else {
		fmt.Println("ok:" + hx(res))
	}
}

// needsChild: a single sequence that the case description says ends in the missing-entry-point Fatalf, or a
// composite command that may.
func needsChild(c *Case) bool {
	if !strings.Contains(c.Cmd, "|") {
		return false
	}
	if k, arg := single(c.Cmd); k != nil {
		return specOf(c, k, arg).skip == "fatal-entry-point"
	}
	// a sequence nested in another one is rewritten by the earlier pass (quotes are added inside the later sequence's
	// argument), so its entry point name may no longer be the one written: evaluate those in the child too
	return fatalEP(c) || nestedSeq.MatchString(c.Cmd)
}

var nestedSeq = regexp.MustCompile(`\$\([^)]*\$\(`)

// fatalEP: does the command reference an entry point that the named target does not have?  (Conservative:
// any "|ep" whose ep is not an entry point of every target of the case.)
func fatalEP(c *Case) bool {
	has := func(ep string) bool {
		all := append([]TSpec{c.T}, nil...)
		for _, d := range c.Deps {
			all = append(all, d.Deps[0])
		}
		for _, t := range all {
			ok := false
			for _, e := range t.EPs {
				if e[0] == ep {
					ok = true
				}
			}
			if !ok {
				return false
			}
		}
		return true
	}
	rest := c.Cmd
	for {
		i := strings.Index(rest, "|")
		if i < 0 {
			return false
		}
		rest = rest[i+1:]
		end := strings.IndexAny(rest, "|)")
		ep := rest
		if end >= 0 {
			ep = rest[:end]
		}
		if !has(ep) {
			return true
		}
	}
}

func flush(r *lib.Run, p *pending) {}

// ---------------------------------------------------------------- end to end: the real plz binary

var e2eSeq int

// runE2E builds one genrule with the real binary ($VERIF_PLZ) in a fresh scratch repository and judges the
// property at its stated observation point: build success and the content the command produced by reading the
// expanded path.  The model has no say here (both sides print "-").
func runE2E(r *lib.Run, op string, f []string) {
	must(len(f) == 3)
	kind, name := f[1], unhx(f[2])
	must(kind == "file" || kind == "multi" || kind == "nondep" || kind == "typo" || kind == "named" || kind == "fgroup")
	must(name != "" && !strings.ContainsAny(name, "\"\\\n/") && !strings.HasPrefix(name, "."))
	r.Emit(op, "-", false)
	plz := os.Getenv("VERIF_PLZ")
	if _, err := os.Stat(plz); plz == "" || err != nil {
		r.Count("e2e-no-binary")
		return
	}
	e2eSeq++
	root := filepath.Clean(filepath.Join(emptyDir, "..", "e2e"+strconv.Itoa(e2eSeq)))
	os.RemoveAll(root)
	defer os.RemoveAll(root)
	if err := os.MkdirAll(filepath.Join(root, "pkg"), 0o755); err != nil {
		panic(err)
	}
	os.WriteFile(filepath.Join(root, ".plzconfig"), nil, 0o644)
	content := "content of " + name + "\n"
	os.WriteFile(filepath.Join(root, "pkg", name), []byte(content), 0o644)
	os.WriteFile(filepath.Join(root, "pkg", "ab"), []byte("sibling\n"), 0o644) // gives a glob something to find
	build := ""
	switch kind {
	case "file":
		build = fmt.Sprintf("genrule(name = \"t\", srcs = [\"%s\", \"ab\"], outs = [\"t.out\"], cmd = \"cat $(location %s) > $OUT\")\n", name, name)
	case "typo":
		build = fmt.Sprintf("genrule(name = \"t\", srcs = [\"ab\"], outs = [\"t.out\"], cmd = \"echo $(location %s) > $OUT\")\n", name)
	case "multi":
		build = "genrule(name = \"two\", outs = [\"o1\", \"o2\"], cmd = \"touch $OUTS\")\n" +
			"genrule(name = \"t\", srcs = [\":two\"], outs = [\"t.out\"], cmd = \"echo $(location :two) > $OUT\")\n"
	case "named":
		build = "genrule(name = \"two\", outs = {\"srcs\": [\"a.c\"], \"hdrs\": [\"a.h\"]}, cmd = \"touch $OUTS\")\n" +
			"genrule(name = \"t\", srcs = [\":two\"], outs = [\"t.out\"], cmd = \"echo $(location :two) > $OUT\")\n"
	case "fgroup":
		os.WriteFile(filepath.Join(root, "pkg", "c.txt"), []byte("c\n"), 0o644)
		build = "filegroup(name = \"two\", srcs = [\"ab\", \"c.txt\"])\n" +
			"genrule(name = \"t\", srcs = [\":two\"], outs = [\"t.out\"], cmd = \"echo $(location :two) > $OUT\")\n"
	case "nondep":
		build = "genrule(name = \"other\", outs = [\"o1\"], cmd = \"touch $OUT\")\n" +
			"genrule(name = \"t\", srcs = [\"ab\"], outs = [\"t.out\"], cmd = \"echo $(location :other) > $OUT\")\n"
	}
	os.WriteFile(filepath.Join(root, "pkg", "BUILD"), []byte(build), 0o644)
	home := filepath.Join(root, ".home")
	os.MkdirAll(home, 0o755)
	cmd := exec.Command(plz, "build", "//pkg:t", "--plain_output", "--noupdate")
	cmd.Dir = root
	cmd.Env = []string{"HOME=" + home, "XDG_CACHE_HOME=" + filepath.Join(home, "cache"), "XDG_CONFIG_HOME=" + filepath.Join(home, "config"), "PATH=/usr/bin:/bin", "PLZ_NO_UPDATE=1"}
	var out bytes.Buffer
	cmd.Stdout, cmd.Stderr = &out, &out
	done := make(chan error, 1)
	if err := cmd.Start(); err != nil {
		r.Count("e2e-cannot-start")
		return
	}
	go func() { done <- cmd.Wait() }()
	var err error
	select {
	case err = <-done:
	case <-time.After(180 * time.Second):
		cmd.Process.Kill()
		r.Count("e2e-timeout")
		return
	}
	text := out.String()
	r.Count("e2e:" + kind)
	tail := text
	if len(tail) > 300 {
		tail = tail[len(tail)-300:]
	}
	switch kind {
	case "file":
		if err != nil && !strings.Contains(text, "Error building target") {
			r.Count("e2e-not-a-build-failure")
			return
		}
		got, _ := os.ReadFile(filepath.Join(root, "plz-out/gen/pkg/t.out"))
		if err == nil && string(got) == content {
			r.Count("e2e-pass")
			return
		}
		cls := "e2e-valid-location-fails"
		if strings.Contains(name, ")") {
			// the regex stops at the first ")": the sequence as parsed names a prefix of the file name, which is not a source
			cls = "plain-name-not-checked-against-sources"
		} else if !goodPath("pkg/" + name) {
			cls = "quote-misses-shell-metachar"
		}
		r.OracleFail(cls, op, fmt.Sprintf("plz build of `cat $(location %s) > $OUT`: err=%v, output %q, want %q; %s", name, err, got, content, strings.TrimSpace(tail)))
	case "typo":
		if err == nil {
			r.OracleFail("plain-name-not-checked-against-sources", op, fmt.Sprintf("plz build accepts $(location %s) although it is not a source", name))
		} else {
			r.Count("e2e-pass")
		}
	case "named", "fgroup":
		if err == nil {
			got, _ := os.ReadFile(filepath.Join(root, "plz-out/gen/pkg/t.out"))
			what := "named outputs {srcs: [a.c], hdrs: [a.h]}"
			if kind == "fgroup" {
				what = "a filegroup over ab and c.txt"
			}
			r.OracleFail("singular-location-expands-to-several-paths", op, fmt.Sprintf("plz build accepts `echo $(location :two) > $OUT` where :two has %s; the command saw %q", what, strings.TrimSpace(string(got))))
		} else if strings.Contains(text, "multiple outputs") {
			r.Count("e2e-pass")
		} else {
			r.Count("e2e-failed-for-another-reason")
		}
	case "multi":
		if err == nil {
			r.OracleFail("singular-location-expands-to-several-paths", op, "plz build accepts $(location :two) on a rule with two plain outputs")
		} else if strings.Contains(text, "multiple outputs") {
			r.Count("e2e-pass")
		} else {
			r.Count("e2e-failed-for-another-reason")
		}
	case "nondep":
		if err == nil {
			r.OracleFail("accepted-not-a-dependency", op, "plz build accepts $(location :other) although :other is not a dependency")
		} else {
			r.Count("e2e-pass")
		}
	}
}

func runOp(r *lib.Run, p *pending, op string, withFS bool) {
	if os.Getenv("C37_DEBUG") != "" {
		fmt.Fprintln(os.Stderr, "OP", op) // the last line printed is the op a silent os.Exit happened in
	}
	defer func() {
		if e := recover(); e != nil {
			if _, ok := e.(parseErr); ok {
				r.Emit(op, "bad-op", false)
				return
			}
			panic(e)
		}
	}()
	f := strings.Split(op, " ")
	switch f[0] {
	case "rs":
		runRS(r, p, f, withFS)
	case "tp":
		must(len(f) == 5)
		c := decTarget(f[1:5])
		must(c.wellFormed())
		t, g := build(c)
		tmp := t.TmpDir()
		var ps []string
		for _, to := range core.IterSources(state, g, t, false) {
			rel, err := filepath.Rel(tmp, to)
			if err != nil {
				rel = "?" + to
			}
			ps = append(ps, rel)
		}
		sort.Strings(ps)
		r.Emit(op, encList(ps), len(ps) > 1)
		r.Count("tp")
	case "pj":
		must(len(f) == 2)
		parts := decList(f[1])
		r.Emit(op, hx(filepath.Join(parts...)), len(parts) > 1)
		r.Count("pj")
	case "lbl":
		must(len(f) == 4)
		in, pkg, sub := unhx(f[1]), unhx(f[2]), unhx(f[3])
		out := "notlabel"
		if core.LooksLikeABuildLabel(in) {
			if l, err := core.TryParseBuildLabel(in, pkg, sub); err != nil {
				out = "invalid"
			} else {
				out = encLabel(Label{l.Subrepo, l.PackageName, l.Name})
			}
		}
		r.Emit(op, out, out != "notlabel")
		if out == "notlabel" || out == "invalid" {
			r.Count("lbl:" + out)
		} else {
			r.Count("lbl:parsed")
		}
	case "e2e":
		runE2E(r, op, f)
	case "sw":
		must(len(f) == 2)
		text := unhx(f[1])
		if !inSubset(text) {
			r.Emit(op, "outside", false)
			r.Count("sw-outside-subset")
			return
		}
		b := serverBash(emptyDir, text)
		r.Emit(op, b.canon(), true)
		if b.canon() == "E" {
			r.Count("sw-syntax-error")
		} else {
			r.Count("sw-words:" + strconv.Itoa(min(len(b.words), 4)))
		}
	default:
		r.Emit(op, "bad-op", false)
	}
}

// ---------------------------------------------------------------- generators

var nameAtoms = []string{"a", "b", "ab", "x", "lib", "a b", "a;b", "p&q", "x<y", "q\"r", "w'z", "t`u`", "$HOME", "a*", "?", "[ab]",
	"é", "-n", "a.b", "~", "#c", "{a,b}", "a\\b", "(p)", "a|b", "a>b", " a", "a ", "a\tb", "a=b", "!", "%", "^", "a$b", "\"", "'", "a\nb", "日本"}

var pkgAtoms = []string{"", "a", "b", "pkg", "my pkg", "p;q", "x<y", "q\"r", "w'z", "t`u`", "é", "a/b", "a/my dir", "-", "~", "#p", "a=b", "p q/r"}

func genName(g *lib.Rng) string {
	s := lib.Pick(g, nameAtoms)
	if g.Chance(25) {
		s += lib.Pick(g, []string{".txt", ".py", "/x", "/sub dir/y", "", "2"})
	}
	if g.Chance(10) {
		s = lib.Pick(g, nameAtoms) + s
	}
	return s
}

// safeRel: usable as a real file below a directory (no empty / dot components, not absolute)
func safeRel(s string) bool {
	if s == "" || strings.HasPrefix(s, "/") || strings.HasSuffix(s, "/") || strings.ContainsRune(s, 0) {
		return false
	}
	for _, c := range strings.Split(s, "/") {
		if c == "" || c == "." || c == ".." {
			return false
		}
	}
	return true
}

func genOuts(g *lib.Rng, n int, wild bool) []string {
	m := map[string]bool{}
	for i := 0; i < n*3 && len(m) < n; i++ {
		s := genName(g)
		if wild && g.Chance(15) {
			s = lib.Pick(g, []string{"a/../b", "a//b", "a/./b", "../up", "x/"})
		}
		if s == "" || strings.HasPrefix(s, "./") || (!wild && !safeRel(s)) {
			continue
		}
		m[s] = true
	}
	out := make([]string, 0, len(m))
	for k := range m {
		out = append(out, k)
	}
	sort.Strings(out)
	// a file cannot also be a directory of another output
	if !wild {
		var keep []string
		for _, o := range out {
			ok := true
			for _, p := range out {
				if p != o && (strings.HasPrefix(p, o+"/") || strings.HasPrefix(o, p+"/")) {
					ok = false
				}
			}
			if ok {
				keep = append(keep, o)
			}
		}
		out = keep
	}
	return out
}

var targetNames = []string{"t", "dep", "lib", "my target", "q\"r", "a;b", "x<y", "tool", "é", "w'z", "t`u`", "~", "#h", "a=b", "-x"}

func genSpec(g *lib.Rng, pkg, name string, wild bool) TSpec {
	t := TSpec{L: Label{"", pkg, name}, Bin: g.Chance(40)}
	n := lib.Pick(g, []int{0, 1, 1, 1, 2, 2, 3})
	t.Outs = genOuts(g, n, wild)
	switch {
	case len(t.Outs) > 0 && g.Chance(22): // named outputs: some or all of them
		for _, o := range t.Outs {
			if g.Chance(70) {
				t.Extra = append(t.Extra, o)
			}
		}
		if len(t.Extra) == 0 {
			t.Extra = append(t.Extra, t.Outs[0])
		}
	case len(t.Outs) > 0 && g.Chance(18): // a filegroup over these files
		t.FG = true
		t.Extra = append([]string{}, t.Outs...)
	}
	if g.Chance(25) && len(t.Outs) > 0 && !t.FG {
		ne := 1 + g.Intn(2)
		for i := 0; i < ne; i++ {
			t.EPs = append(t.EPs, [2]string{lib.Pick(g, []string{"main", "ep", "e p"}) + strconv.Itoa(i), lib.Pick(g, t.Outs)})
		}
	}
	return t
}

func spellings(g *lib.Rng, c *Case, l Label) string {
	opts := []string{"//" + l.Pkg + ":" + l.Name}
	if l.Pkg == c.T.L.Pkg {
		opts = append(opts, ":"+l.Name)
	}
	if l.Pkg != "" && filepath.Base(l.Pkg) == l.Name {
		opts = append(opts, "//"+l.Pkg)
	}
	return lib.Pick(g, opts)
}

func genCase(g *lib.Rng, wild bool) *Case {
	c := &Case{Root: ""}
	pkg := lib.Pick(g, pkgAtoms)
	c.T = genSpec(g, pkg, "t", wild)
	c.T.Extra, c.T.FG = nil, false // named / filegroup-derived outputs are generated for dependencies only
	if g.Chance(20) {
		c.T.L.Name = lib.Pick(g, targetNames)
	}
	c.Test = g.Chance(15)
	if wild && g.Chance(5) {
		c.T.L.Sub = "sub"
	}
	nd := 1 + g.Intn(4)
	used := map[Label]bool{c.T.L: true}
	for i := 0; i < nd; i++ {
		dp := pkg
		if g.Chance(50) {
			dp = lib.Pick(g, pkgAtoms)
		}
		l := Label{c.T.L.Sub, dp, lib.Pick(g, targetNames)}
		if g.Chance(10) && dp != "" {
			l.Name = filepath.Base(dp)
		}
		if used[l] {
			continue
		}
		used[l] = true
		s := genSpec(g, dp, l.Name, wild)
		s.L = l
		roles := lib.Pick(g, []int{roleSrc, roleSrc, roleDep, roleDep, roleTool, roleTool, roleData, roleSrc | roleDep, roleDep | roleTool, roleSrc | roleTool, roleDep | roleData, roleSrc | roleData})
		c.Deps = append(c.Deps, DepDecl{Declared: l, Roles: roles, Deps: []TSpec{s}})
	}
	// sources: files and the src-role labels, interleaved
	for _, f := range genOuts(g, g.Intn(4), wild) {
		c.Srcs = append(c.Srcs, Input{Str: f})
	}
	for i := range c.Deps {
		d := &c.Deps[i]
		if d.Roles&roleSrc != 0 {
			c.Srcs = append(c.Srcs, Input{Str: bl(d.Declared).String(), Lab: &d.Declared})
		}
		if d.Roles&roleTool != 0 {
			c.Tools = append(c.Tools, Input{Str: bl(d.Declared).String(), Lab: &d.Declared})
		}
	}
	lib.Shuffle(g, c.Srcs)
	if g.Chance(20) {
		c.Tools = append(c.Tools, Input{Str: lib.Pick(g, []string{"/usr/bin/tool", "/bin/a b", "mytool", "my tool"})})
	}
	// a file cannot be both a source file and a directory of another source
	if !wild {
		var keep []Input
		for _, s := range c.Srcs {
			ok := true
			if s.Lab == nil {
				for _, p := range c.Srcs {
					if p.Lab == nil && p.Str != s.Str && (strings.HasPrefix(p.Str, s.Str+"/") || strings.HasPrefix(s.Str, p.Str+"/")) {
						ok = false
					}
				}
			}
			if ok {
				keep = append(keep, s)
			}
		}
		c.Srcs = keep
	}
	return c
}

func genArg(g *lib.Rng, c *Case, k *seqKind) string {
	x := g.Intn(100)
	switch {
	case x < 45 && len(c.Deps) > 0: // a declared dependency, preferably one the sequence can be used on
		d := lib.Pick(g, c.Deps)
		for try := 0; try < 4; try++ {
			fits := (k.multiple || len(d.Deps[0].Outs) == 1) && (!k.runnable || d.Deps[0].Bin) && d.Roles != roleData
			if fits || g.Chance(15) {
				break
			}
			d = lib.Pick(g, c.Deps)
		}
		s := spellings(g, c, d.Declared)
		if len(d.Deps[0].EPs) > 0 && g.Chance(50) {
			s += "|" + lib.Pick(g, d.Deps[0].EPs)[0]
		}
		return s
	case x < 60: // a source file / tool by name
		ins := c.Srcs
		if k.runnable {
			ins = c.Tools
		}
		var files []string
		for _, s := range ins {
			if s.Lab == nil && !strings.Contains(s.Str, ")") {
				files = append(files, s.Str)
			}
		}
		if len(files) > 0 {
			return lib.Pick(g, files)
		}
		return "nosuch.txt"
	case x < 68: // itself
		s := spellings(g, c, c.T.L)
		if len(c.T.EPs) > 0 && g.Chance(50) {
			s += "|" + c.T.EPs[0][0]
		}
		return s
	case x < 80: // a label that is not a dependency
		return lib.Pick(g, []string{"//other:thing", ":nosuch", "//" + c.T.L.Pkg + ":zz", "//a:b", "//pkg", "@sub//a:b", "///sub//a:b", "@sub"})
	case x < 90: // a file that is not a source
		return lib.Pick(g, []string{"nosuch.txt", "typo", "a b", "../escape", "/nonexistent/passwd", "x y z", "$HOME", "`id`"})
	default: // junk labels
		return lib.Pick(g, []string{"//", ":", "//a:", "//:x", "//a:b:c", "//a b:c", "//a:..", "//a:.hidden", "//a:b._build", "//a/...", "//...", ":a|b|c", "//a//b:c", "///x", "@", "@:", "@a:b", "//a:b/c", "//é:é", ":" + c.T.L.Name + "|nope"})
	}
}

func genCmd(g *lib.Rng, c *Case) string {
	if g.Chance(72) {
		k := &seqKinds[g.Intn(len(seqKinds)-1)] // hash rarely, below
		if g.Chance(4) {
			k = &seqKinds[8]
		}
		return "$(" + k.kw + " " + genArg(g, c, k) + ")"
	}
	// composite commands: several sequences, text, escapes, malformed sequences
	var b strings.Builder
	n := 1 + g.Intn(4)
	for i := 0; i < n; i++ {
		switch g.Intn(9) {
		case 0:
			b.WriteString(lib.Pick(g, []string{"cat ", "echo \\$OUT ", "\\$", "$(", ")", "$(location )", "$(location", "$(locations x", "$(exe )", " && ", "$OUT", "\\\\$", "$(dir)", "$( location a)", "$(LOCATION a)"}))
		case 1:
			// never nest inside $(hash …): the inner sequence is expanded first and $(hash <path>) of a path that happens
			// to exist (".", the root package's directory) depends on the file system, which the model does not have
			k := &seqKinds[g.Intn(len(seqKinds)-1)]
			b.WriteString("$(" + k.kw + " $(" + seqKinds[g.Intn(len(seqKinds))].kw + " " + genArg(g, c, k) + "))")
		default:
			k := &seqKinds[g.Intn(len(seqKinds))]
			b.WriteString("$(" + k.kw + " " + genArg(g, c, k) + ")")
			if g.Bool() {
				b.WriteString(" ")
			}
		}
	}
	return b.String()
}

var swAtoms = []string{"a", "b", " ", "  ", "\t", "'", "\"", "\\", "$", "`", "*", "?", "[", "]", "~", "#", "{", "}", "!", "|", "&", ";", "(", ")", "<", ">",
	"=", "%", "^", "é", "a b", "'a b'", "\"a b\"", "\\ ", "\\\"", "\\'", "\\\\", "\"\\\"\"", "''", "\"\"", "pkg/f.txt", "\"p;q/a&b\"", "-", ",", ":", "@", "+", ".", "/", "\n", "\"x\\y\"", "\"\\$\"", "\x01", "\x7f"}

func genSW(g *lib.Rng) string {
	var b strings.Builder
	n := 1 + g.Intn(6)
	for i := 0; i < n; i++ {
		b.WriteString(lib.Pick(g, swAtoms))
	}
	return b.String()
}

func main() {
	logging.SetBackend(logging.NewLogBackend(nullWriter{}, "", 0)) // replaceSequencesInternal logs a stack trace per recovered panic
	logging.SetLevel(logging.CRITICAL, "")
	if len(os.Args) == 3 && os.Args[1] == "-child-rs" {
		childMain(os.Args[2])
		return
	}
	r := lib.Start()
	defer r.Finish()
	r.Rule = "rs: the command is a single well-formed sequence that the real code expands without error (distinct by op line); tp/pj: at least two entries; lbl: looks like a label; sw: every line"
	state = core.NewDefaultBuildState()
	state.TargetHasher = stubHasher{}
	scratch := os.Getenv("VERIF_SCRATCH")
	if scratch == "" {
		scratch = r.OutDir
	}
	scratch, _ = filepath.Abs(scratch)
	base := filepath.Join(scratch, "c37fs")
	emptyDir = filepath.Join(base, "empty")
	if err := os.MkdirAll(emptyDir, 0o755); err != nil {
		panic(err)
	}
	defer os.RemoveAll(base)
	p := &pending{}
	if ops := r.ReplayOps(); ops != nil {
		for _, op := range ops {
			runOp(r, p, op, true)
		}
		flush(r, p)
		return
	}
	g := r.Rng
	// 0. fixed shapes: singular sequences on dependencies whose several outputs are NAMED outputs or derived by a
	// filegroup (nothing, or one entry, in the plain outs list)
	for _, shape := range []TSpec{
		{Outs: []string{"a.c", "a.h"}, Extra: []string{"a.c", "a.h"}},
		{Outs: []string{"a.c", "a.h"}, Extra: []string{"a.c", "a.h"}, FG: true},
		{Outs: []string{"a.c", "a.h", "main.c"}, Extra: []string{"a.c", "a.h"}},
		{Outs: []string{"a.c", "a.h"}, Extra: []string{"a.h"}},
		{Outs: []string{"lib.a"}, Extra: []string{"lib.a"}},
		{Outs: []string{"one.txt"}, Extra: []string{"one.txt"}, FG: true},
	} {
		for _, roles := range []int{roleSrc, roleDep} {
			for _, kw := range []string{"location", "out_location", "locations"} {
				dep := shape
				dep.L = Label{"", "path/to", "dep"}
				c := &Case{T: TSpec{L: Label{"", "path/to", "t"}, Outs: []string{"out"}}, Deps: []DepDecl{{Declared: dep.L, Roles: roles, Deps: []TSpec{dep}}}}
				if roles&roleSrc != 0 {
					c.Srcs = []Input{{Str: bl(dep.L).String(), Lab: &dep.L}}
				}
				c.Cmd = "$(" + kw + " //path/to:dep)"
				r.Count("fixed-shape-named-or-filegroup-outputs")
				runOp(r, p, c.rsOp(), true)
			}
		}
	}
	// 1. replacement cases with the file-system oracle
	nfs := r.N(1200, 12000)
	for i := 0; i < nfs; i++ {
		c := genCase(g, false)
		c.Cmd = genCmd(g, c)
		for try := 0; try < 3 && needsChild(c) && g.Chance(85); try++ {
			c.Cmd = genCmd(g, c) // child processes are expensive here: keep only a few
		}
		runOp(r, p, c.rsOp(), true)
	}
	flush(r, p)
	// 2. wild cases (dot-dot outputs, subrepo labels …): correspondence and the rejection oracle only
	for i := 0; i < r.N(1500, 20000); i++ {
		c := genCase(g, true)
		c.Cmd = genCmd(g, c)
		for try := 0; try < 3 && needsChild(c) && g.Chance(85); try++ {
			c.Cmd = genCmd(g, c)
		}
		runOp(r, p, c.rsOp(), false)
		if i%5 == 0 {
			runOp(r, p, "tp "+encTarget(c), false)
		}
	}
	flush(r, p)
	// 3. filepath.Join and label parsing on their own
	pjAtoms := []string{"", "a", "b", ".", "..", "/", "a/b", "a/", "/a", "a//b", "a/./b", "a/../b", "../a", "../../a", "é", "a b", "...", "/..", "plz-out/gen"}
	for i := 0; i < r.N(600, 6000); i++ {
		n := 1 + g.Intn(3)
		parts := make([]string, n)
		for j := range parts {
			parts[j] = lib.Pick(g, pjAtoms)
			if g.Chance(20) {
				parts[j] += "/" + lib.Pick(g, pjAtoms)
			}
		}
		p0 := make([]string, n)
		for j := range parts {
			p0[j] = hx(parts[j])
		}
		runOp(r, p, "pj "+strings.Join(p0, ","), false)
	}
	lblAtoms := []string{"//", ":", "/", "a", "b", "...", "@", "|", " ", ".", "._build", "._test", "pkg", "é", "$", "*", "///", "x:y", "/...", "a/b"}
	for i := 0; i < r.N(1500, 15000); i++ {
		var b strings.Builder
		b.WriteString(lib.Pick(g, []string{"//", ":", "@", "///", "", "/"}))
		for j := g.Intn(5); j > 0; j-- {
			b.WriteString(lib.Pick(g, lblAtoms))
		}
		runOp(r, p, "lbl "+hx(b.String())+" "+hx(lib.Pick(g, pkgAtoms))+" "+hx(lib.Pick(g, []string{"", "", "sub"})), false)
	}
	// 4. the Lean word splitter against real bash
	for i := 0; i < r.N(2500, 25000); i++ {
		s := genSW(g)
		if !inSubset(s) && g.Chance(85) {
			// keep most of the budget inside the subset: drop the offending atoms
			var b strings.Builder
			for _, c := range s {
				if inSubset(string(c)) {
					b.WriteRune(c)
				}
			}
			s = b.String()
		}
		runOp(r, p, "sw "+hx(s), false)
	}
	// 5. end to end with the real binary
	e2eNames := []string{"c.txt", "a-b_1.txt", "a b.txt", "a$b.txt", "a*", "a;b.txt", "a&b.txt", "x'y.txt", "t`u`", "#c", "~", "a=b", "p(1).txt", "é.txt"}
	for _, n := range e2eNames {
		runOp(r, p, "e2e file "+hx(n), false)
	}
	runOp(r, p, "e2e typo "+hx("nosuch.txt"), false)
	runOp(r, p, "e2e multi "+hx("x"), false)
	runOp(r, p, "e2e named "+hx("x"), false)
	runOp(r, p, "e2e fgroup "+hx("x"), false)
	runOp(r, p, "e2e nondep "+hx("x"), false)
	if server != nil {
		server.cmd.Process.Kill()
		server.cmd.Wait()
	}
}
