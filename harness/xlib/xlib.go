// Package xlib: helpers for the go/ast fact extractors.  Every extractor re-reads /repo (or $VERIF_REPO)
// and writes one Lean file under lean/PlzVerif/Generated/.  Std-lib only.
package xlib

import (
	"bytes"
	"fmt"
	"go/ast"
	"go/parser"
	"go/printer"
	"go/token"
	"os"
	"path/filepath"
	"strconv"
	"strings"
)

func Repo() string {
	if r := os.Getenv("VERIF_REPO"); r != "" {
		return r
	}
	return "/repo"
}

type File struct {
	Fset *token.FileSet
	AST  *ast.File
	Path string
}

// Parse parses a file given relative to the repo root.  It exits 3 (facts unreadable) on failure.
func Parse(rel string) *File {
	fset := token.NewFileSet()
	p := filepath.Join(Repo(), rel)
	f, err := parser.ParseFile(fset, p, nil, parser.ParseComments)
	if err != nil {
		Unreadable("cannot parse %s: %v", rel, err)
	}
	return &File{Fset: fset, AST: f, Path: rel}
}

// Unreadable reports that the facts tie cannot be established (not a violation by itself).
func Unreadable(format string, a ...any) {
	fmt.Fprintf(os.Stderr, "FACTS-UNREADABLE: "+format+"\n", a...)
	os.Exit(3)
}

// Func finds a function or method declaration: "Name" or "Recv.Name" (receiver type without *).
func (f *File) Func(name string) *ast.FuncDecl {
	recv, fn := "", name
	if i := strings.Index(name, "."); i >= 0 {
		recv, fn = name[:i], name[i+1:]
	}
	for _, d := range f.AST.Decls {
		fd, ok := d.(*ast.FuncDecl)
		if !ok || fd.Name.Name != fn {
			continue
		}
		r := ""
		if fd.Recv != nil && len(fd.Recv.List) > 0 {
			t := fd.Recv.List[0].Type
			if s, ok := t.(*ast.StarExpr); ok {
				t = s.X
			}
			if ix, ok := t.(*ast.IndexExpr); ok {
				t = ix.X
			}
			if ix, ok := t.(*ast.IndexListExpr); ok {
				t = ix.X
			}
			if id, ok := t.(*ast.Ident); ok {
				r = id.Name
			}
		}
		if r == recv {
			return fd
		}
	}
	Unreadable("function %s not found in %s", name, f.Path)
	return nil
}

// Src renders a node back to source text on one line.
func (f *File) Src(n ast.Node) string {
	var b bytes.Buffer
	printer.Fprint(&b, f.Fset, n)
	return strings.Join(strings.Fields(b.String()), " ")
}

func (f *File) Line(n ast.Node) int { return f.Fset.Position(n.Pos()).Line }

// ConstBlockNames returns the identifiers of the const block that contains `first`, in order.
func (f *File) ConstBlockNames(first string) []string {
	for _, d := range f.AST.Decls {
		gd, ok := d.(*ast.GenDecl)
		if !ok || gd.Tok != token.CONST {
			continue
		}
		var names []string
		found := false
		for _, s := range gd.Specs {
			for _, n := range s.(*ast.ValueSpec).Names {
				names = append(names, n.Name)
				if n.Name == first {
					found = true
				}
			}
		}
		if found {
			return names
		}
	}
	Unreadable("const block with %s not found in %s", first, f.Path)
	return nil
}

// VarValue returns the initialiser expression of a package-level var or const.
func (f *File) VarValue(name string) ast.Expr {
	for _, d := range f.AST.Decls {
		gd, ok := d.(*ast.GenDecl)
		if !ok || (gd.Tok != token.VAR && gd.Tok != token.CONST) {
			continue
		}
		for _, s := range gd.Specs {
			vs := s.(*ast.ValueSpec)
			for i, n := range vs.Names {
				if n.Name == name && i < len(vs.Values) {
					return vs.Values[i]
				}
			}
		}
	}
	Unreadable("var %s not found in %s", name, f.Path)
	return nil
}

// ---- Lean rendering ----

func LeanStr(s string) string {
	var b strings.Builder
	b.WriteByte('"')
	for _, r := range s {
		switch {
		case r == '"':
			b.WriteString("\\\"")
		case r == '\\':
			b.WriteString("\\\\")
		case r == '\n':
			b.WriteString("\\n")
		case r == '\t':
			b.WriteString("\\t")
		case r == '\r':
			b.WriteString("\\r")
		case r < 32 || r == 127:
			fmt.Fprintf(&b, "\\x%02x", r)
		default:
			b.WriteRune(r)
		}
	}
	b.WriteByte('"')
	return b.String()
}

func LeanChar(r rune) string {
	switch r {
	case '\'':
		return "'\\''"
	case '\\':
		return "'\\\\'"
	case '\n':
		return "'\\n'"
	case '\t':
		return "'\\t'"
	}
	if r < 32 || r == 127 {
		return fmt.Sprintf("(Char.ofNat %d)", r)
	}
	return "'" + string(r) + "'"
}

func LeanStrList(xs []string) string {
	p := make([]string, len(xs))
	for i, x := range xs {
		p[i] = LeanStr(x)
	}
	return "[" + strings.Join(p, ", ") + "]"
}

func LeanCharList(xs []rune) string {
	p := make([]string, len(xs))
	for i, x := range xs {
		p[i] = LeanChar(x)
	}
	return "[" + strings.Join(p, ", ") + "]"
}

func LeanNatList(xs []int) string {
	p := make([]string, len(xs))
	for i, x := range xs {
		p[i] = strconv.Itoa(x)
	}
	return "[" + strings.Join(p, ", ") + "]"
}

func LeanBool(b bool) string {
	if b {
		return "true"
	}
	return "false"
}

// Out collects definitions and writes lean/PlzVerif/Generated/<name>.lean only when content changed.
type Out struct {
	name string
	b    strings.Builder
}

func NewOut(name string, sources ...string) *Out {
	o := &Out{name: name}
	fmt.Fprintf(&o.b, "-- REGENERATED from %s by /verif/harness/extract/%s on every run. Do not edit.\n", strings.Join(sources, ", "), strings.ToLower(name))
	fmt.Fprintf(&o.b, "namespace PlzVerif.Generated.%s\n", name)
	return o
}

func (o *Out) Def(name, typ, val string) { fmt.Fprintf(&o.b, "def %s : %s := %s\n", name, typ, val) }
func (o *Out) Raw(s string)              { o.b.WriteString(s); o.b.WriteByte('\n') }

func (o *Out) Write() {
	fmt.Fprintf(&o.b, "end PlzVerif.Generated.%s\n", o.name)
	dir := os.Getenv("VERIF_GENERATED")
	if dir == "" {
		dir = "/verif/lean/PlzVerif/Generated"
	}
	os.MkdirAll(dir, 0o755)
	p := filepath.Join(dir, o.name+".lean")
	old, err := os.ReadFile(p)
	if err == nil && string(old) == o.b.String() {
		return
	}
	if err := os.WriteFile(p, []byte(o.b.String()), 0o644); err != nil {
		panic(err)
	}
}
